/* C09 (-g): the declarations written by wasmCWriteFunctionDeclarations of the real w2c2/c.c for a function with ANY debug name from the
 * name section.  stdio is a recorder with a small state machine: between the opening quote of  __asm__("  and the closing quote, every
 * character that reaches the file - literal or substituted - must be an identifier character; otherwise the header does not compile
 * (a '"' or '\' ends or corrupts the string literal, blanks and punctuation are rejected by the assembler). */
#include <stdio.h>
#include <stdlib.h>
#include <string.h>
#include <ctype.h>
#include "vh.h"
static int g_in_asm, g_asm_bad, g_asm_labels, g_mk;     /* g_mk: how much of the marker  __asm__("  has been seen in literal text */
static const char MARK[] = "__asm__(\"";
static int ident_ch(int c) { return (c >= '0' && c <= '9') || (c >= 'A' && c <= 'Z') || (c >= 'a' && c <= 'z') || c == '_'; }
static void out_lit(int c) {           /* a character of literal text (format strings, fputs/fputc of constants): concrete */
    if (g_in_asm) { if (c == '"') g_in_asm = 0; else if (!ident_ch(c)) g_asm_bad = 1; return; }
    if (c == MARK[g_mk]) { g_mk++; if (MARK[g_mk] == 0) { g_in_asm = 1; g_asm_labels++; g_mk = 0; } } else g_mk = (c == MARK[0]) ? 1 : 0;
}
static void out_arg(int c) {           /* a substituted character (possibly symbolic): only judged, never changes the state */
    if (g_in_asm) g_asm_bad |= !ident_ch(c); else g_mk = 0;
}
static void out_str_arg(const char* s) { size_t i; for (i = 0; i < 8; i++) { if (s[i] == 0) return; out_arg((unsigned char)s[i] < 128 ? s[i] : 0x80); } }
static int vh_fputc(int c, FILE* f) { (void)f; out_lit(c); return c; }
static int vh_fputs(const char* s, FILE* f) { (void)f; while (*s) out_lit(*s++); return 0; }
static int vh_fpr(FILE* f, const char* fmt, long long a, long long b) { long long args[2]; int ai = 0; size_t i; (void)f; args[0] = a; args[1] = b;
    for (i = 0; fmt[i]; i++) {
        if (fmt[i] != '%') { out_lit(fmt[i]); continue; }
        i++;
        if (fmt[i] == 's') { out_str_arg((const char*)(size_t)args[ai < 2 ? ai : 1]); ai++; }
        else if (fmt[i] == 'c') { out_arg((int)args[ai < 2 ? ai : 1]); ai++; }
        else if (fmt[i] == 'u') { out_arg('0'); ai++; }                              /* digits */
        else if (fmt[i] == '0' && fmt[i + 1] == '2' && fmt[i + 2] == 'X') { out_arg('0'); out_arg('0'); i += 2; ai++; }   /* hex digits */
        else g_asm_bad = 1;
    }
    return 0; }
#define VH_FPR_(s, fmt, a, b, ...) vh_fpr(s, fmt, (long long)(a), (long long)(b))
#define fprintf(s, ...) VH_FPR_(s, __VA_ARGS__, 0, 0, 0)
#define fputc vh_fputc
#define fputs vh_fputs
static int vh_isalnum(int c) { return (c >= '0' && c <= '9') || (c >= 'A' && c <= 'Z') || (c >= 'a' && c <= 'z'); }
#ifdef VERIF_CBMC
#undef isalnum
#define isalnum(c) vh_isalnum(c)
#endif
#include "c.c"
#undef fprintf
#undef fputc
#undef fputs
void h_debug_names(void) { ND_ARR(char, nm, 4); ND(unsigned, n); ND(int, named); WasmModule m; WasmFunctionType ft; WasmFunction fn; char* names[1]; WasmValueType pt[1]; unsigned i;
    ASSUME(n >= 1 && n <= 3); for (i = 0; i < 4; i++) { if (i < n) ASSUME(nm[i] != 0); else nm[i] = 0; }
    memset(&m, 0, sizeof m); memset(&fn, 0, sizeof fn);
    pt[0] = wasmValueTypeI32; ft.parameterCount = 1; ft.parameterTypes = pt; ft.resultCount = 0; ft.resultTypes = 0;
    m.functionTypes.functionTypes = &ft; m.functionTypes.count = 1; m.functions.functions = &fn; m.functions.count = 1;
    names[0] = named ? nm : (char*)0; m.functionNames.names = names; m.functionNames.length = 1;
    g_in_asm = 0; g_asm_bad = 0; g_asm_labels = 0; g_mk = 0;
    wasmCWriteFunctionDeclarations((FILE*)0, &m, "mod", false, true, false);
    OBL(!g_asm_bad, "-g: whatever bytes the name section gives a function, the assembler label written into the header consists of identifier characters only (so the header compiles and assembles)");
    OBL(!g_in_asm, "-g: the label's string literal is closed");
    OBL(g_asm_labels == (named ? 1 : 0), "-g: a function with a debug name gets exactly one label, an unnamed one none");
    CANARY("debug_names"); }
