"""Layer R: contracts on the macros / inline functions of the real w2c2_base.h.
Macros are reached through one-line wrapper functions generated from a table; the header itself is
included unmodified, or as one of the two mechanically transformed variants of DESIGN.md 2.2."""
import os, re
from .core import Job, Undecided, native_replay_generic, VERIF


def header_variant(ctx, kind):
    """Return an include directory that provides w2c2_base.h in the requested variant.
       'plain'    : the repository file itself
       'fallback' : token __has_builtin renamed to W2C2_VERIF_HAS_BUILTIN (must fire exactly 8 times),
                    to be compiled with -DW2C2_VERIF_HAS_BUILTIN(x)=0  -> Hacker's-Delight paths
       'noswapbuiltin' : '#if defined(__clang__) || (defined(__GNUC__) && ...' guarding __builtin_bswap*
                    gets 'W2C2_VERIF_BSWAP_BUILTIN &&' prepended (must fire exactly once)"""
    src = os.path.join(ctx.repo, "w2c2", "w2c2_base.h")
    if kind == "plain":
        return os.path.join(ctx.repo, "w2c2")
    text = open(src).read()
    d = os.path.dirname(ctx.path("hdr_" + kind, "x"))
    if kind == "fallback":
        n = len(re.findall(r"\b__has_builtin\b", text))
        if n != 8:
            raise Undecided("header transformation 'fallback': token __has_builtin occurs %d times, expected 8 "
                            "(contract no longer attaches)" % n)
        text = re.sub(r"\b__has_builtin\b", "W2C2_VERIF_HAS_BUILTIN", text)
    elif kind == "noswapbuiltin":
        pat = "#if defined(__clang__) || (defined(__GNUC__) && ((__GNUC__ == 4 && __GNUC_MINOR__ >= 8) || __GNUC__ >= 5))"
        if text.count(pat) != 1:
            raise Undecided("header transformation 'noswapbuiltin': guard line occurs %d times, expected 1" % text.count(pat))
        text = text.replace(pat, "#if defined(W2C2_VERIF_BSWAP_BUILTIN) && (" + pat[len("#if "):] + ")")
    else:
        raise ValueError(kind)
    with open(os.path.join(d, "w2c2_base.h"), "w") as f:
        f.write(text)
    return d


class ROp:
    def __init__(self, name, expr, ret, params, spec, trap=None, solver="sat", requires=(), post=(), timeout=None,
                 bits=False):
        self.name, self.expr, self.ret, self.params = name, expr, ret, list(params)
        self.spec, self.trap, self.solver = spec, trap, solver
        self.requires, self.post, self.timeout = list(requires), list(post), timeout
        self.bits = bits  # compare result bitwise (floats)


def _eq(ret, a, b, bits):
    if bits == "feq":
        return ("SPEC_FEQ32(%s, %s)" if ret == "F32" else "SPEC_FEQ64(%s, %s)") % (a, b)
    if ret == "F32" and bits:
        return "(vh_f32bits(%s) == vh_f32bits(%s))" % (a, b)
    if ret == "F64" and bits:
        return "(vh_f64bits(%s) == vh_f64bits(%s))" % (a, b)
    return "((%s) == (%s))" % (a, b)


def emit(ops, spec_includes, preamble=""):
    out = ['#include "w2c2_base.h"', '#include "vh.h"']
    for h in spec_includes:
        out.append('#include "%s"' % h)
    out.append('#include "trapstub.h"')
    out.append(preamble)
    for o in ops:
        ps = ", ".join("%s a%d" % (t, i) for i, t in enumerate(o.params))
        trap = o.trap or "SPEC_NOTRAP"
        out.append("%s w_%s(%s) { return %s; }" % (o.ret, o.name, ps, o.expr))
        out.append("#ifndef VERIF_NATIVE")
        out.append("%s c_%s(%s)" % (o.ret, o.name, ps))
        out.append("  __CPROVER_requires(g_spec_trap == %s)" % trap)
        for rq in o.requires:
            out.append("  __CPROVER_requires(%s)" % rq)
        out.append("  __CPROVER_ensures(g_spec_trap == SPEC_NOTRAP)")
        out.append("  __CPROVER_ensures(%s)" % _eq(o.ret, "__CPROVER_return_value", o.spec, o.bits))
        for pe, _n in o.post:
            out.append("  __CPROVER_ensures(%s)" % pe.replace("RET", "__CPROVER_return_value"))
        out.append("  __CPROVER_assigns();")
        out.append("#endif")
        out.append("void h_%s(void) {" % o.name)
        for i, t in enumerate(o.params):
            out.append("  ND(%s, a%d);" % (t, i))
        out.append("  %s r;" % o.ret)
        for rq in o.requires:
            out.append("  ASSUME(%s);" % rq)
        out.append("  g_spec_trap = %s;" % trap)
        out.append("  r = w_%s(%s);" % (o.name, ", ".join("a%d" % i for i in range(len(o.params)))))
        out.append("#ifdef VERIF_NATIVE")
        out.append('  OBL(g_spec_trap == SPEC_NOTRAP, "%s: returned normally only if the specification does not trap");' % o.name)
        out.append('  OBL(%s, "%s: result equals the specified value");' % (_eq(o.ret, "r", o.spec, o.bits), o.name))
        for pe, n in o.post:
            out.append('  OBL(%s, "%s: %s");' % (pe.replace("RET", "r"), o.name, n))
        out.append("#else")
        out.append("  (void)r;")
        out.append("#endif")
        out.append('  CANARY("%s returns");' % o.name)
        out.append("}")
    return "\n".join(out) + "\n"


def jobs(ctx, ops, spec_includes, prefix, variant="plain", defines=(), big_endian=False, preamble="", ub_checks=False):
    inc = header_variant(ctx, variant)
    # one harness file per call: two calls with the same prefix (different operation lists) must not overwrite each other
    import hashlib as _hl
    key = prefix.replace("/", "_") + "-" + _hl.sha1(("|".join(o.name for o in ops) + variant + "|".join(defines)).encode()).hexdigest()[:8]
    d = os.path.dirname(ctx.path("rlayer", key, "x"))
    path = os.path.join(d, "r.c")
    with open(path, "w") as f:
        f.write(emit(ops, spec_includes, preamble))
    res = []
    for o in ops:
        def replay(ctx_, job, prop, vals):
            return native_replay_generic(ctx_, job, prop, vals)
        res.append(Job(name="%s.%s" % (prefix, o.name), src=path, entry="h_" + o.name, includes=[inc],
                       defines=list(defines), enforce=[("w_" + o.name, "c_" + o.name)], solver=o.solver,
                       funcs=["w2c2_base.h:" + o.name], min_canaries=2 if o.trap else 1, replay=replay,
                       big_endian=big_endian, timeout=o.timeout, ub_checks=ub_checks,
                       info=dict(layer="R", header_variant=variant, expr=o.expr)))
    return res
