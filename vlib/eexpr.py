"""Layer E, expression emitters of w2c2/c.c at EVERY stack height (harness/e_expr.c): contracts with symbolic height h,
symbolic operand types and symbolic ghost entries below; shared by the properties that depend on the slot discipline."""
import os
import re
from .core import Job, VERIF, native_replay_generic
from .elayer import ejob

H = os.path.join(VERIF, "harness")
# name -> (emitter, [(suffix, defines)] opcode variants)
GENERIC = [("", [])]
def _w(op32, op64):
    return [("32", ["OPC=" + op32, "W64=0"]), ("64", ["OPC=" + op64, "W64=1"])]
EMITTERS = {
    "unary": ("wasmCWriteUnaryExpr", GENERIC), "prefix": ("wasmCWritePrefixBinaryExpr", GENERIC),
    "infix": ("wasmCWriteInfixBinaryExpr", GENERIC), "infix_assign": ("wasmCWriteInfixBinaryExpr", GENERIC),
    "signed_infix": ("wasmCWriteSignedInfixBinaryExpr", _w("wasmOpcodeI32LtS", "wasmOpcodeI64LtS") +
                     [("ge64", ["OPC=wasmOpcodeI64GeS", "W64=1"]), ("le32", ["OPC=wasmOpcodeI32LeS", "W64=0"]),
                      ("gt64", ["OPC=wasmOpcodeI64GtS", "W64=1"]), ("ge32", ["OPC=wasmOpcodeI32GeS", "W64=0"]),
                      ("le64", ["OPC=wasmOpcodeI64LeS", "W64=1"]), ("gt32", ["OPC=wasmOpcodeI32GtS", "W64=0"])]),
    "shl": ("wasmCWriteShiftLeftExpr", _w("wasmOpcodeI32Shl", "wasmOpcodeI64Shl")),
    "shr_u": ("wasmCWriteUnsignedShiftRightExpr", _w("wasmOpcodeI32ShrU", "wasmOpcodeI64ShrU")),
    "shr_s": ("wasmCWriteSignedShiftRightExpr", _w("wasmOpcodeI32ShrS", "wasmOpcodeI64ShrS")),
    "select": ("wasmCWriteSelectExpr", GENERIC),
    "load": ("wasmCWriteLoad", [("off", ["OFFZ=0"]), ("0", ["OFFZ=1"])]),
    "store": ("wasmCWriteStore", [("off", ["OFFZ=0"]), ("0", ["OFFZ=1"])]),
    "local_get": ("wasmCWriteLocalGetExpr", GENERIC), "local_get_invalid": ("wasmCWriteLocalGetExpr", GENERIC),
    "local_assign": ("wasmCWriteLocalAssignmentExpr", [("set", ["LOCAL_OPC=wasmOpcodeLocalSet"]), ("tee", ["LOCAL_OPC=wasmOpcodeLocalTee"])]),
    "const": ("wasmCWriteConstExpr", [("32", ["CONST64=0"]), ("64", ["CONST64=1"])]),
    "call": ("wasmCWriteCallExpr", [("p2r1", ["NPAR=2", "NRES=1"]), ("p0r1", ["NPAR=0", "NRES=1"]), ("p3r0", ["NPAR=3", "NRES=0"]), ("p1r1", ["NPAR=1", "NRES=1"]), ("p0r0", ["NPAR=0", "NRES=0"])]),
    "call_indirect": ("wasmCWriteCallIndirectExpr", [("p2r1", ["NPAR=2", "NRES=1"]), ("p0r1", ["NPAR=0", "NRES=1"]), ("p3r0", ["NPAR=3", "NRES=0"]), ("p1r1", ["NPAR=1", "NRES=1"]), ("p0r0", ["NPAR=0", "NRES=0"])]),
    "br": ("wasmCWriteBranchExpr", [("copy", ["BR_CLASS=0"]), ("inplace", ["BR_CLASS=1"]), ("novalue", ["BR_CLASS=2"])]),
    "br_if": ("wasmCWriteBranchIfExpr", [("copy", ["BR_CLASS=0"]), ("inplace", ["BR_CLASS=1"]), ("novalue", ["BR_CLASS=2"])]),
    "global_get": ("wasmCWriteGlobalGetExpr", GENERIC), "global_set": ("wasmCWriteGlobalSetExpr", GENERIC),
    "memory_size": ("wasmCWriteMemorySizeExpr", GENERIC), "memory_grow": ("wasmCWriteMemoryGrowExpr", GENERIC),
    "dispatch": ("wasmCWriteFunctionCode", [("nop", ["DISP=0"]), ("drop", ["DISP=1"]), ("unreachable_then_dead", ["DISP=2"]), ("br_then_dead", ["DISP=3"]), ("dead_until_else", ["DISP=4"]), ("return", ["DISP=5"]), ("dead_memory_fill_padded", ["DISP=6", "HMAX=4"]), ("dead_memory_copy_padded", ["DISP=7", "HMAX=4"]), ("dead_memory_init_padded", ["DISP=8", "HMAX=4"]), ("dead_atomic_load_padded", ["DISP=9", "HMAX=4"])]),
    "function_return": ("wasmCWriteFunctionReturn", [("", ["HMAX=6"])]),
    "dead": ("wasmCWriteLoadExpr", [("global_get", ["DEAD_WHICH=0"]), ("global_set", ["DEAD_WHICH=1"]), ("load", ["DEAD_WHICH=2"]), ("store", ["DEAD_WHICH=3"]), ("call", ["DEAD_WHICH=4"]), ("call_indirect", ["DEAD_WHICH=5"]), ("br", ["DEAD_WHICH=6"]), ("br_if", ["DEAD_WHICH=7"]), ("br_table", ["DEAD_WHICH=8"]), ("memory_grow", ["DEAD_WHICH=9"])]),
    "ignored": ("wasmCWriteLocalGetExpr", [("local_get", ["IGN_WHICH=0"]), ("local_set", ["IGN_WHICH=1"]), ("local_tee", ["IGN_WHICH=2"]), ("const", ["IGN_WHICH=3"])]),
}
SRC = {"function_return": "e_dispatch.c", "dead": "e_dead.c", "dispatch": "e_dispatch.c", "global_get": "e_more.c", "global_set": "e_more.c", "memory_size": "e_more.c", "memory_grow": "e_more.c"}
BOUNDED = {"function_return": "operand-stack heights and capacities <= 10 (wasmTypeStackClear loops over the capacity); types symbolic"}
PRETTY_IN_QUICK = {"shr_s", "shr_u", "shl", "signed_infix", "select", "br_if", "infix_assign"}     # emitters with text that exists only in the -p path
ALL_VARIANTS_IN_QUICK = {"ignored", "br", "br_if", "dispatch", "dead"}
EXTRA_FUNCS = {
    "load": ["c.c:wasmCWriteStringMemoryUse"], "store": ["c.c:wasmCWriteStringMemoryUse"],
    "local_get": ["module.h:wasmModuleFunctionGetLocalType", "locals.h:wasmLocalsDeclarationsGetType", "instruction.c:wasmLocalInstructionRead", "leb128.h:leb128ReadU32", "c.c:wasmCWriteStringLocalName"],
    "local_get_invalid": ["module.h:wasmModuleFunctionGetLocalType", "locals.h:wasmLocalsDeclarationsGetType"],
    "local_assign": ["module.h:wasmModuleFunctionGetLocalType", "locals.h:wasmLocalsDeclarationsGetType", "instruction.c:wasmLocalInstructionRead", "c.c:wasmCWriteStringLocalName"],
    "ignored": ["c.c:wasmCWriteLocalAssignmentExpr", "c.c:wasmCWriteConstExpr", "instruction.c:wasmLocalInstructionRead", "instruction.c:wasmConstInstructionRead"],
    "dead": ["c.c:wasmCWriteGlobalGetExpr", "c.c:wasmCWriteGlobalSetExpr", "c.c:wasmCWriteStoreExpr", "c.c:wasmCWriteCallExpr", "c.c:wasmCWriteCallIndirectExpr", "c.c:wasmCWriteBranchExpr",
             "c.c:wasmCWriteBranchIfExpr", "c.c:wasmCWriteBranchTableExpr", "c.c:wasmCWriteMemoryGrowExpr", "instruction.c:wasmBranchTableInstructionRead", "instruction.c:wasmMemoryArgumentInstructionRead"],
    "dispatch": ["c.c:wasmCWriteGoto", "c.c:wasmCWriteBranchExpr", "opcode.h:wasmOpcodeRead"],
    "br": ["c.c:wasmCWriteGoto", "labelstack.h:wasmLabelStackGetTopIndex", "instruction.c:wasmBranchInstructionRead", "c.c:wasmCWriteStringLabelName"],
    "br_if": ["c.c:wasmCWriteGoto", "labelstack.h:wasmLabelStackGetTopIndex", "instruction.c:wasmBranchInstructionRead", "c.c:wasmCWriteStringLabelName"],
    "global_get": ["module.h:wasmModuleGetGlobalType", "c.c:wasmCWriteStringGlobalUse", "instruction.c:wasmGlobalInstructionRead"],
    "global_set": ["module.h:wasmModuleGetGlobalType", "c.c:wasmCWriteStringGlobalUse", "instruction.c:wasmGlobalInstructionRead"],
    "memory_size": ["c.c:wasmCWriteStringMemoryUse", "instruction.c:wasmMemoryInstructionRead"], "memory_grow": ["c.c:wasmCWriteStringMemoryUse", "instruction.c:wasmMemoryInstructionRead"],
    "call": ["module.h:wasmModuleGetFunctionType", "c.c:wasmCWriteStringFunctionUse", "instruction.c:wasmCallInstructionRead"],
    "call_indirect": ["c.c:wasmCWriteStringTableUse", "c.c:wasmCWriteParameters", "c.c:wasmCGetReturnType", "instruction.c:wasmCallIndirectInstructionRead"],
    "const": ["instruction.c:wasmConstInstructionRead", "leb128.h:leb128ReadI32", "leb128.h:leb128ReadI64", "c.c:wasmCWriteLiteral"],
}
COMMON = ["typestack.h:wasmTypeStackSet", "typestack.h:wasmTypeStackDrop", "typestack.h:wasmTypeStackGetTopIndex",
          "array.h:wasmTypeStackAppend", "array.h:arrayEnsureCapacity", "c.c:wasmCWriteStringStackName"]


def expr_jobs(ctx, which, solver="sat"):
    """quick: every emitter, first opcode variant, compact output; thorough: every variant, compact and pretty (-p) output"""
    jobs = []
    for nm in which:
        fn, variants = EMITTERS[nm]
        for vi, (suf, vdefs) in enumerate(variants):
            for pr in (0, 1):
                if ctx.tier == "quick" and ((pr and not (nm in PRETTY_IN_QUICK and vi == 0)) or (vi > 1 and nm not in ALL_VARIANTS_IN_QUICK)):
                    continue
                jobs.append(ejob(ctx, "E.h.%s%s%s" % (nm, suf, ".pretty" if pr else ""), SRC.get(nm, "e_expr.c"), "h_" + nm,
                                 ["c.c:" + fn] + COMMON + EXTRA_FUNCS.get(nm, []), defines=["PRETTY=%d" % pr, "INDENT=%d" % (2 if pr else 0)] + vdefs,
                                 flags=["--unwind", "24", "--unwinding-assertions"], solver=solver, bounded=BOUNDED.get(nm), timeout=(900 if ctx.tier == "quick" else 1800),
                                 info=dict(layer="E", note="symbolic stack height h <= 2^24, symbolic operand and context types; "
                                           "array.c growth enters through its contract (job A.ensure_capacity)")))
    jobs += grow_jobs(ctx, [4])
    return jobs


# ---- (round 7) opcode -> runtime function tables of the load / store emitters, from the specification's mnemonics ----
def _camel(m):
    """i64.load16_s -> I64Load16S ; i32.atomic.load8_u -> I32AtomicLoad8U (the enum spelling of opcode.h)"""
    out = ""
    for part in m.replace(".", "_").split("_"):
        out += part[0].upper() + part[1:]
    return out
_VT = {"i32": 0, "i64": 1, "f32": 2, "f64": 3}
def _memops():
    ops = []
    for ty, widths in (("i32", ["8", "16"]), ("i64", ["8", "16", "32"])):
        ops.append((0, ty + ".load")); ops.append((1, ty + ".store"))
        for wd in widths:
            ops += [(0, "%s.load%s_s" % (ty, wd)), (0, "%s.load%s_u" % (ty, wd)), (1, "%s.store%s" % (ty, wd))]
            ops += [(2, "%s.atomic.load%s_u" % (ty, wd)), (3, "%s.atomic.store%s" % (ty, wd))]
        ops += [(2, ty + ".atomic.load"), (3, ty + ".atomic.store")]
    for ty in ("f32", "f64"):
        ops += [(0, ty + ".load"), (1, ty + ".store")]
    res = []
    for kind, m in ops:
        ty = m[:3]
        mw = re.search(r"(?:load|store)(\d+)", m)
        bits = int(mw.group(1)) if mw else int(ty[1:])
        enum = ("wasmThreadsOpcode" if kind >= 2 else "wasmOpcode") + _camel(m)
        res.append(dict(kind=kind, mnemonic=m, enum=enum, fn=m.replace(".", "_"), rt=_VT[ty], align={8: 0, 16: 1, 32: 2, 64: 3}[bits]))
    return res
MEMOPS = _memops()


def memop_jobs(ctx, kinds, solver=os.environ.get("VERIF_MEMOP_SOLVER", "sat")):
    """one contract per load/store opcode (kinds: 0 plain load, 1 plain store, 2 atomic load, 3 atomic store) at every stack height;
    THOROUGH tier only: non-zero and zero offsets, compact output; no growth of the type stack (NO_GROW; growth: E.h.load / E.h.store)"""
    jobs = []
    if ctx.tier != "thorough":      # 110 s to more than 550 s per job on minisat in different runs of the same input: too unstable for the every-change tier
        return jobs
    emit = {0: "wasmCWriteLoadExpr", 1: "wasmCWriteStoreExpr", 2: "wasmCWriteAtomicLoadExpr", 3: "wasmCWriteAtomicStoreExpr"}
    inner = {0: "wasmCWriteLoad", 1: "wasmCWriteStore", 2: "wasmCWriteLoad", 3: "wasmCWriteStore"}
    for op in MEMOPS:
        if op["kind"] not in kinds:
            continue
        for offz in ((0, 1) if ctx.tier == "thorough" else (0,)):
            for pr in (0,):      # the -p text of the call is that of wasmCWriteLoad / wasmCWriteStore (E.h.load.pretty / E.h.store.pretty)
                jobs.append(ejob(ctx, "E.h.op.%s%s%s" % (op["mnemonic"], ".off0" if offz else "", ".pretty" if pr else ""), "e_more.c", "h_memop",
                                 ["c.c:" + emit[op["kind"]], "c.c:" + inner[op["kind"]], "c.c:wasmCWriteStringMemoryUse", "instruction.c:wasmMemoryArgumentInstructionRead", "leb128.h:leb128ReadU32"] + COMMON,
                                 defines=["PRETTY=%d" % pr, "INDENT=%d" % (2 if pr else 0), "OFFZ=%d" % offz, "MEMOP_KIND=%d" % op["kind"], "MEMOP_OPC=" + op["enum"],
                                          "MEMOP_FN=" + op["fn"], "NO_GROW=1", "MEMOP_RT=%d" % op["rt"], "MEMOP_ALIGN=%d" % op["align"]],
                                 flags=["--unwind", "24", "--unwinding-assertions"], solver=solver, timeout=3000,
                                 info=dict(layer="E", note="opcode -> runtime function / result type / natural alignment from the mnemonic; symbolic stack height h <= 2^24, "
                                           "symbolic offset (5-byte padded LEB) and alignment hint; array.c growth enters through its contract (job A.ensure_capacity)")))
    return jobs


def grow_jobs(ctx, sizes):
    jobs = []
    for isz in sizes:
        jobs.append(Job("A.ensure_capacity.%d" % isz, os.path.join(H, "array_grow.c"), entry="h_ensure",
                        includes=[os.path.join(ctx.repo, "w2c2"), H], defines=["ISZ=%d" % isz],
                        funcs=["array.c:arrayEnsureCapacitySlowPath"], malloc_may_fail=True,
                        info=dict(layer="A", note="capacity and length symbolic up to 2^24+8 elements of %d bytes; realloc/calloc are CBMC's library models" % isz)))
    return jobs


def block_jobs(ctx):
    """block / loop / if modular in the enclosed code (wasmCWriteFunctionCode replaced by its contract = the induction hypothesis)"""
    jobs = []
    kinds = [("block", 0), ("loop", 1), ("if", 2), ("ifelse", 3)]
    for nm, k in kinds:
        for typed in (1, 0):
            for dead in (0, 1):
                if dead and typed == 0:
                    continue
                for pr in ((0, 1) if ctx.tier == "thorough" else (0,)):
                    name = "S.%s%s%s%s" % (nm, ".typed" if typed else ".void", ".dead" if dead else "", ".pretty" if pr else "")
                    j = ejob(ctx, name, "e_block.c", "h_block", ["c.c:wasmCWrite%sExpr" % {0: "Block", 1: "Loop", 2: "If", 3: "If"}[k], "labelstack.h:wasmLabelStackPush", "labelstack.h:wasmLabelStackPop", "c.c:wasmCWriteLabel"],
                             defines=["BL_KIND=%d" % k, "BL_TYPED=%d" % typed, "BL_DEAD=%d" % dead, "PRETTY=%d" % pr, "INDENT=%d" % (1 if pr else 0)],
                             flags=["--unwind", "12", "--unwinding-assertions"], replace=[("wasmCWriteFunctionCode", "c_inner")], replay=None, timeout=(900 if ctx.tier == "quick" else 1800),
                             info=dict(layer="S", note="symbolic stack height and label-stack length; the enclosed code enters through the induction hypothesis (contract c_inner in harness/e_block.c)"))
                    jobs.append(j)
    return jobs
