"""Layer E: contracts on the emitters of w2c2/c.c, which is #included whole by the harness; the string builder is the ghost recorder env/sb_recorder.h."""
import os
from .core import Job, VERIF, native_replay_generic

H = os.path.join(VERIF, "harness")
CC_DEFS = ["HAS_PTHREAD=1", "HAS_UNISTD=1", "HAS_GETOPT=1", "HAS_LIBGEN=1", "HAS_STRDUP=1", "HAS_GLOB=1"]


CC_NATIVE = ["stringbuilder.c", "array.c", "opcode.c", "instruction.c", "valuetype.c", "sha1.c", "export.c", "debug.c", "section.c"]


def ejob(ctx, name, src, entry, funcs, defines=(), native_src=None, **kw):
    """native_src: repository translation units to link when the harness is replayed natively (None: those c.c needs, minus the ones the harness #includes itself)"""
    inc = [os.path.join(ctx.repo, "w2c2"), H]
    text = open(os.path.join(H, src)).read()
    if native_src is None:
        native_src = [f for f in CC_NATIVE if ('#include "%s"' % f) not in text]
        if '#include "sb_recorder.h"' in text:
            native_src = [f for f in native_src if f != "stringbuilder.c"]
    extra = [os.path.join(ctx.repo, "w2c2", f) for f in native_src]
    kw.setdefault("replay", lambda c, j, p, v: native_replay_generic(c, j, p, v, extra_cflags=extra))
    info = kw.pop("info", {})
    info.setdefault("allow_no_body", [])
    return Job(name, os.path.join(H, src), entry=entry, includes=inc, defines=CC_DEFS + list(defines), funcs=funcs, info=info, **kw)
