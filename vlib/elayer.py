"""Layer E: contracts on the emitters of w2c2/c.c, which is #included whole by the harness; the string builder is the ghost recorder env/sb_recorder.h."""
import os
from .core import Job, VERIF, native_replay_generic

H = os.path.join(VERIF, "harness")
CC_DEFS = ["HAS_PTHREAD=1", "HAS_UNISTD=1", "HAS_GETOPT=1", "HAS_LIBGEN=1", "HAS_STRDUP=1", "HAS_GLOB=1"]


def ejob(ctx, name, src, entry, funcs, defines=(), **kw):
    inc = [os.path.join(ctx.repo, "w2c2"), H]
    kw.setdefault("replay", lambda c, j, p, v: native_replay_generic(c, j, p, v))
    info = kw.pop("info", {})
    info.setdefault("allow_no_body", [])
    return Job(name, os.path.join(H, src), entry=entry, includes=inc, defines=CC_DEFS + list(defines), funcs=funcs, info=info, **kw)
