"""Generator of structured-control-flow function bodies for C03 (and reused by C10/C09):
from ONE construction it emits (a) WebAssembly code bytes and (b) an independent reference C function that
uses an explicit operand array indexed by the static stack height (no type-dependent naming, no type stack),
structured C for if/else, and explicit 'copy the carried value, goto' for branches.
Dead code (after br / br_table / return / unreachable) is emitted in the wasm only; the reference emits nothing for it."""
import random
from . import wasm as W

I32, I64 = W.I32, W.I64


class Label:
    def __init__(self, kind, height, rtype, name):
        self.kind, self.height, self.rtype, self.name = kind, height, rtype, name


class Body:
    def __init__(self, params, locals_, result, nglobals=2):
        self.params, self.locals, self.result = list(params), list(locals_), result
        self.ltypes = list(params) + list(locals_)
        self.w = bytearray()
        self.c = []
        self.st = []          # static operand stack (types)
        self.labels = [Label("func", 0, result, "Lf")]
        self.dead = False
        self.nlab = 0
        self.maxh = 0
        self.desc = []

    # ---- helpers
    def emit(self, b, text=None):
        self.w += b
        if text:
            self.desc.append(text)

    def C(self, line):
        if not self.dead:
            self.c.append("    " * (len(self.labels)) + line)

    def push(self, t):
        self.st.append(t)
        self.maxh = max(self.maxh, len(self.st))

    def pop(self, t=None):
        if self.dead and not self.st_live():
            return
        x = self.st.pop()
        assert t is None or x == t, (x, t)

    def st_live(self):
        return len(self.st) > self.labels[-1].height if len(self.labels) else len(self.st) > 0

    def h(self):
        return len(self.st)

    @staticmethod
    def cv(t, e):
        return "(U32)(%s)" % e if t == I32 else "(U64)(%s)" % e

    # ---- plain instructions (never called in dead mode except through dead_filler)
    def const(self, t, v):
        self.emit(W.ins("i32.const" if t == I32 else "i64.const", v), "%s.const %d" % (W.TNAME[t], v))
        self.C("r[%d] = %s;" % (self.h(), "%uu" % (v & 0xFFFFFFFF) if t == I32 else "%uull" % (v & 0xFFFFFFFFFFFFFFFF)))
        self.push(t)

    def local_get(self, i):
        self.emit(W.ins("local.get", i), "local.get %d" % i)
        self.C("r[%d] = l[%d];" % (self.h(), i))
        self.push(self.ltypes[i])

    def local_set(self, i):
        self.emit(W.ins("local.set", i), "local.set %d" % i)
        self.pop(self.ltypes[i])
        self.C("l[%d] = r[%d];" % (i, self.h()))

    def local_tee(self, i):
        self.emit(W.ins("local.tee", i), "local.tee %d" % i)
        self.C("l[%d] = r[%d];" % (i, self.h() - 1))

    def global_get(self, g, t):
        self.emit(W.ins("global.get", g), "global.get %d" % g)
        self.C("r[%d] = g[%d];" % (self.h(), g))
        self.push(t)

    def global_set(self, g, t):
        self.emit(W.ins("global.set", g), "global.set %d" % g)
        self.pop(t)
        self.C("g[%d] = r[%d];" % (g, self.h()))

    def binop(self, op):
        t = I32 if op.startswith("i32") else I64
        cop = {"add": "+", "sub": "-", "xor": "^", "and": "&", "or": "|", "mul": "*"}[op.split(".")[1]]
        self.emit(W.ins(op), op)
        self.pop(t); self.pop(t)
        hh = self.h()
        self.C("r[%d] = %s;" % (hh, self.cv(t, "%s %s %s" % (self.cv(t, "r[%d]" % hh), cop, self.cv(t, "r[%d]" % (hh + 1))))))
        self.push(t)

    def cmp(self, op):
        t = I32 if op.startswith("i32") else I64
        cop = {"lt_u": "<", "gt_u": ">", "eq": "==", "ne": "!="}[op.split(".")[1]]
        self.emit(W.ins(op), op)
        self.pop(t); self.pop(t)
        hh = self.h()
        self.C("r[%d] = (%s %s %s) ? 1u : 0u;" % (hh, self.cv(t, "r[%d]" % hh), cop, self.cv(t, "r[%d]" % (hh + 1))))
        self.push(I32)

    def eqz(self, t):
        self.emit(W.ins("i32.eqz" if t == I32 else "i64.eqz"), "eqz")
        self.pop(t)
        self.C("r[%d] = (%s == 0) ? 1u : 0u;" % (self.h(), self.cv(t, "r[%d]" % self.h())))
        self.push(I32)

    def extend(self):
        self.emit(W.ins("i64.extend_i32_u"), "i64.extend_i32_u")
        self.pop(I32)
        self.C("r[%d] = (U64)(U32)r[%d];" % (self.h(), self.h()))
        self.push(I64)

    def wrap(self):
        self.emit(W.ins("i32.wrap_i64"), "i32.wrap_i64")
        self.pop(I64)
        self.C("r[%d] = (U32)r[%d];" % (self.h(), self.h()))
        self.push(I32)

    def drop(self):
        self.emit(W.ins("drop"), "drop")
        self.pop()

    def nop(self):
        self.emit(W.ins("nop"), "nop")

    def select(self):
        self.emit(W.ins("select"), "select")
        self.pop(I32)
        t = self.st[-1]
        self.pop(t); self.pop(t)
        hh = self.h()
        self.C("r[%d] = r[%d] != 0 ? r[%d] : r[%d];" % (hh, hh + 2, hh, hh + 1) if False else
               "r[%d] = ((U32)r[%d] != 0) ? r[%d] : r[%d];" % (hh, hh + 2, hh, hh + 1))
        self.push(t)

    # ---- control
    def newlab(self):
        self.nlab += 1
        return "L%d" % self.nlab

    def block(self, rtype=None):
        self.emit(W.ins("block", rtype), "block")
        lab = Label("block", self.h(), rtype, self.newlab())
        self.C("{ /* block */")
        self.labels.append(lab)
        return lab

    def loop(self):
        self.emit(W.ins("loop", None), "loop")
        lab = Label("loop", self.h(), None, self.newlab())
        self.C("%s: ; { /* loop */" % lab.name)
        self.labels.append(lab)
        return lab

    def if_(self, rtype=None):
        self.emit(W.ins("if", rtype), "if")
        self.pop(I32)
        lab = Label("if", self.h(), rtype, self.newlab())
        self.C("if ((U32)r[%d] != 0) { /* if */" % self.h())
        self.labels.append(lab)
        return lab

    def else_(self):
        lab = self.labels[-1]
        assert lab.kind == "if"
        self.emit(W.ins("else"), "else")
        # end of then-branch: stack back to entry height (+result is at r[height])
        was_dead = self.dead
        self.dead = getattr(lab, "entered_dead", False)
        del self.st[lab.height:]
        self.labels.pop()
        self.C("} else {")
        self.labels.append(lab)
        lab.kind = "else"

    def end(self):
        lab = self.labels.pop()
        self.emit(W.ins("end"), "end")
        del self.st[lab.height:]
        body_end_dead = self.dead
        self.dead = getattr(lab, "entered_dead", False)
        if lab.kind == "loop" and body_end_dead:
            # the end of a loop is not a branch target: if the body cannot fall through, what follows is unreachable
            if not self.dead:
                self.c.append("    " * (len(self.labels)) + "}")
            self.dead = True
            if lab.rtype is not None:
                self.push(lab.rtype)
            return
        if lab.kind in ("block", "if", "else"):
            if not self.dead:
                self.c.append("    " * (len(self.labels)) + "} %s: ;" % lab.name)
        else:
            if not self.dead:
                self.c.append("    " * (len(self.labels)) + "}")
        if lab.rtype is not None:
            self.push(lab.rtype)

    def _branch_c(self, depth):
        lab = self.labels[-1 - depth]
        hh = self.h()
        if lab.kind == "loop":
            return "goto %s;" % lab.name
        if lab.kind == "func":
            if lab.rtype is not None:
                return "return %s;" % self.cv(lab.rtype, "r[%d]" % (hh - 1))
            return "return 0;"
        if lab.rtype is not None:
            return "{ r[%d] = r[%d]; goto %s; }" % (lab.height, hh - 1, lab.name)
        return "goto %s;" % lab.name

    def br(self, depth):
        self.emit(W.ins("br", depth), "br %d" % depth)
        self.C(self._branch_c(depth))
        self.dead = True

    def br_if(self, depth):
        self.emit(W.ins("br_if", depth), "br_if %d" % depth)
        self.pop(I32)
        self.C("if ((U32)r[%d] != 0) %s" % (self.h(), self._branch_c(depth)))

    def br_table(self, depths, default):
        self.emit(W.ins("br_table", depths, default), "br_table %s %d" % (depths, default))
        self.pop(I32)
        hh = self.h()
        self.C("switch ((U32)r[%d]) {" % hh)
        for i, d in enumerate(depths):
            self.C("  case %d: %s" % (i, self._branch_c(d)))
        self.C("  default: %s" % self._branch_c(default))
        self.C("}")
        self.dead = True

    def ret(self):
        self.emit(W.ins("return"), "return")
        self.C(self._branch_c(len(self.labels) - 1))
        self.dead = True

    def unreachable(self):
        self.emit(W.ins("unreachable"), "unreachable")
        self.C("{ *trapped = 1; return 0; }")
        self.dead = True

    # in dead code: wasm-only instructions
    def dead_bytes(self, b, text):
        assert self.dead
        self.emit(b, "(dead) " + text)

    def mark_enter(self, lab):
        lab.entered_dead = self.dead

    def finish(self):
        assert len(self.labels) == 1
        if self.result is not None and not self.dead:
            self.c.append("    return %s;" % self.cv(self.result, "r[%d]" % (self.h() - 1)))
        elif not self.dead:
            self.c.append("    return 0;")
        else:
            self.c.append("    return 0; /* not reached */")
        return bytes(self.w)


def reference_c(name, body, nglob):
    rt = "U64"
    ps = "".join(", %s p%d" % (W.CTYPE[t], i) for i, t in enumerate(body.params))
    lines = ["static %s ref_%s(U64* g, int* trapped%s) {" % (rt, name, ps),
             "    U64 r[%d]; U64 l[%d];" % (max(body.maxh, 1) + 2, max(len(body.ltypes), 1))]
    for i, t in enumerate(body.ltypes):
        lines.append("    l[%d] = %s;" % (i, "p%d" % i if i < len(body.params) else "0"))
    lines.append("    (void)g; (void)trapped;")
    lines += body.c
    lines.append("}")
    return "\n".join(lines)


# ------------------------------------------------------------------ hand-written shapes named after the property text
def shapes():
    """Each entry: (name, builder function(Body)) ; params (i32 a, i32 b); locals (i32, i64, i32); globals g0 i32, g1 i64"""
    S = []

    def shape(fn):
        S.append((fn.__name__, fn))
        return fn

    @shape
    def brvalue_extra_below(b):          # branch carries its result past an extra operand of another type
        b.local_get(0); b.extend()                      # i64 below
        lab = b.block(I32); b.mark_enter(lab)
        b.local_get(1); b.const(I32, 7); b.binop("i32.add")
        b.local_get(0); b.br_if(0)                       # carries a value
        b.drop(); b.const(I32, 5)
        b.end()
        b.local_set(2); b.global_set(1, I64); b.local_get(2)

    @shape
    def block_result_consumed_as_rhs(b):   # typed block result used as the right operand, differently typed slot at the block base
        b.local_get(0)
        b.local_get(1); b.extend(); b.global_set(1, I64)
        lab = b.block(I32); b.mark_enter(lab)
        b.const(I64, 9); b.local_set(3)
        b.local_get(1); b.const(I32, 2); b.binop("i32.sub"); b.br(0)
        b.end()
        b.binop("i32.sub")

    @shape
    def br_carries_past_operands_inside_block(b):   # extra operands of other types lie BELOW the carried value inside the block
        b.local_get(0)
        lab = b.block(I32); b.mark_enter(lab)
        b.local_get(3); b.const(I64, 4); b.binop("i64.add")       # i64 at the block's base slot
        b.local_get(1); b.const(I32, 7); b.binop("i32.add")       # carried i32 above it
        b.br(0)
        b.end()
        b.binop("i32.sub")                                          # block result is the right-hand operand

    @shape
    def br_if_and_br_table_carry_past_operands(b):
        b.local_get(1)
        o = b.block(I32); b.mark_enter(o)
        i = b.block(I32); b.mark_enter(i)
        b.const(I64, 1); b.local_get(3); b.binop("i64.add")
        b.local_get(0); b.const(I32, 100); b.binop("i32.add")
        b.local_get(0); b.const(I32, 1); b.binop("i32.and"); b.br_if(0)
        b.local_get(0); b.const(I32, 3); b.binop("i32.and")
        b.br_table([1, 0], 1)
        b.end()
        b.const(I32, 1000); b.binop("i32.add")
        b.end()
        b.binop("i32.xor")

    @shape
    def nested_br_depths(b):
        l0 = b.block(I32); b.mark_enter(l0)
        l1 = b.block(I32); b.mark_enter(l1)
        l2 = b.block(None); b.mark_enter(l2)
        b.const(I32, 11); b.local_get(0); b.const(I32, 1); b.cmp("i32.eq"); b.br_if(2)
        b.drop()
        b.const(I32, 22); b.local_get(0); b.const(I32, 2); b.cmp("i32.eq"); b.br_if(1)
        b.drop()
        b.local_get(0); b.const(I32, 3); b.cmp("i32.eq"); b.br_if(0)
        b.const(I32, 1); b.global_set(0, I32)
        b.end()
        b.const(I32, 33)
        b.end()
        b.const(I32, 100); b.binop("i32.add")
        b.end()

    @shape
    def br_table_all(b):
        l0 = b.block(I32); b.mark_enter(l0)
        l1 = b.block(I32); b.mark_enter(l1)
        l2 = b.block(I32); b.mark_enter(l2)
        b.local_get(1); b.const(I32, 40); b.binop("i32.add")
        b.local_get(0)
        b.br_table([0, 1, 2, 1], 2)                       # out-of-range index -> default
        b.end()
        b.const(I32, 1); b.binop("i32.add")
        b.end()
        b.const(I32, 2); b.binop("i32.xor")
        b.end()

    @shape
    def loop_counter(b):
        b.const(I32, 0); b.local_set(2)
        lab = b.loop(); b.mark_enter(lab)
        b.local_get(2); b.const(I32, 1); b.binop("i32.add"); b.local_tee(2)
        b.local_get(3); b.local_get(2); b.extend(); b.binop("i64.add"); b.local_set(3)
        b.local_get(0); b.const(I32, 3); b.binop("i32.and"); b.cmp("i32.lt_u")
        b.br_if(0)
        b.end()
        b.local_get(3); b.wrap(); b.local_get(2); b.binop("i32.xor")

    @shape
    def loop_break_from_nested(b):          # branch out of a loop from inside, carrying a value to the enclosing block
        out = b.block(I32); b.mark_enter(out)
        lp = b.loop(); b.mark_enter(lp)
        b.local_get(2); b.const(I32, 1); b.binop("i32.add"); b.local_set(2)
        b.local_get(2); b.const(I32, 10); b.binop("i32.add")
        b.local_get(2); b.local_get(0); b.const(I32, 3); b.binop("i32.and"); b.cmp("i32.gt_u"); b.br_if(1)
        b.drop()
        b.br(0)
        b.end()
        b.dead_bytes(W.ins("i32.const", 99), "i32.const 99 (dead, provides the block result type)")
        b.end()

    @shape
    def if_else_results(b):
        b.local_get(0)
        i1 = b.if_(I32); b.mark_enter(i1)
        b.local_get(1); b.const(I32, 1); b.binop("i32.add")
        b.else_()
        b.local_get(1); b.const(I32, 2); b.binop("i32.sub")
        b.end()
        b.local_get(1)
        i2 = b.if_(None); b.mark_enter(i2)
        b.const(I32, 7); b.global_set(0, I32)
        b.end()

    @shape
    def if_then_ends_in_br_else_must_run(b):     # then-branch ends in an unconditional branch; else-branch must still be translated
        out = b.block(None); b.mark_enter(out)
        b.local_get(0)
        i1 = b.if_(None); b.mark_enter(i1)
        b.const(I32, 10); b.local_set(2)
        b.br(1)
        b.else_()
        b.const(I32, 20); b.local_set(2)
        b.const(I64, 5); b.global_set(1, I64)
        b.end()
        b.const(I32, 1); b.global_set(0, I32)
        b.end()
        b.local_get(2)

    @shape
    def if_result_then_return(b):
        b.local_get(1)
        b.local_get(0)
        i1 = b.if_(I32); b.mark_enter(i1)
        b.const(I32, 77); b.ret()
        b.else_()
        b.const(I32, 3)
        b.end()
        b.binop("i32.add")

    @shape
    def dead_code_nested_block(b):               # dead code containing a nested block must have no effect and must not resurrect
        out = b.block(I32); b.mark_enter(out)
        b.local_get(0); b.const(I32, 1); b.binop("i32.add")
        b.br(0)
        inner = b.block(None); b.mark_enter(inner)
        b.dead_bytes(W.ins("i32.const", 5) + W.ins("global.set", 0), "i32.const 5; global.set 0")
        b.end()
        b.dead_bytes(W.ins("i32.add") + W.ins("drop") + W.ins("i32.const", 9) + W.ins("global.set", 0), "i32.add; drop; i32.const 9; global.set 0")
        b.dead_bytes(W.ins("i32.const", 1), "i32.const 1")
        b.end()
        b.const(I32, 2); b.binop("i32.xor")

    @shape
    def dead_code_after_return_with_loop_and_if(b):
        b.local_get(0); b.local_get(1); b.binop("i32.sub")
        b.ret()
        lp = b.loop(); b.mark_enter(lp)
        b.dead_bytes(W.ins("i32.const", 1), "i32.const 1")
        i1 = b.if_(None); b.mark_enter(i1)
        b.dead_bytes(W.ins("i32.const", 3) + W.ins("global.set", 0), "i32.const 3; global.set 0")
        b.else_()
        b.dead_bytes(W.ins("br", 1), "br 1")
        b.end()
        b.end()
        b.dead_bytes(W.ins("i32.const", 4), "i32.const 4")

    @shape
    def unreachable_traps(b):
        b.local_get(0); b.const(I32, 5); b.cmp("i32.eq")
        i1 = b.if_(None); b.mark_enter(i1)
        b.const(I32, 1); b.global_set(0, I32)
        b.unreachable()
        b.end()
        b.local_get(1)

    @shape
    def select_drop_nop_locals(b):
        b.local_get(3); b.const(I64, 1); b.binop("i64.add"); b.local_tee(3)     # declared locals start at zero
        b.nop()
        b.local_get(2); b.extend()
        b.local_get(0)
        b.select()
        b.wrap()
        b.local_get(4); b.binop("i32.add")                                        # second i32 local, still zero
        b.local_get(1); b.local_set(4)
        b.local_get(4); b.binop("i32.xor")
        b.const(I32, 3); b.drop()

    @shape
    def grouped_locals_start_at_zero(b):          # locals declared as one (count, type) group: EVERY member starts at zero
        b.local_get(4); b.local_get(5); b.binop("i32.add")
        b.local_get(6); b.local_get(7); b.binop("i64.add"); b.wrap(); b.binop("i32.add")
        b.local_get(0); b.local_set(5)
        b.local_get(1); b.extend(); b.local_set(7)
        b.local_get(5); b.binop("i32.add"); b.local_get(7); b.wrap(); b.binop("i32.xor")

    @shape
    def tee_and_overwrite_param(b):
        b.local_get(0); b.const(I32, 1); b.binop("i32.add"); b.local_tee(0)
        b.local_get(0); b.binop("i32.xor")
        b.local_get(1); b.local_set(0)
        b.local_get(0); b.binop("i32.sub")

    @shape
    def br_table_in_loop_with_values(b):
        out = b.block(I32); b.mark_enter(out)
        b.const(I32, 0); b.local_set(2)
        lp = b.loop(); b.mark_enter(lp)
        b.local_get(2); b.const(I32, 1); b.binop("i32.add"); b.local_set(2)
        b.local_get(2); b.const(I32, 50); b.binop("i32.add")
        b.local_get(2); b.local_get(0); b.const(I32, 3); b.binop("i32.and"); b.cmp("i32.lt_u")
        sw = b.if_(None); b.mark_enter(sw)
        b.br(1)
        b.end()
        b.br(1)
        b.end()
        b.dead_bytes(W.ins("i32.const", 0), "i32.const 0")
        b.end()

    return S


def random_body(rnd, b, depth=0, budget=None):
    """Append a random, valid, terminating instruction sequence leaving the stack as it found it."""
    if budget is None:
        budget = [18]
    while budget[0] > 0:
        budget[0] -= 1
        c = rnd.random()
        if c < 0.25:
            # arithmetic into a local
            b.local_get(rnd.choice([0, 1, 2, 4])); b.const(I32, rnd.randint(0, 9)); b.binop(rnd.choice(["i32.add", "i32.xor", "i32.sub"])); b.local_set(rnd.choice([2, 4]))
        elif c < 0.35:
            b.local_get(rnd.choice([0, 1, 2])); b.global_set(0, I32)
        elif c < 0.45:
            b.local_get(3); b.local_get(rnd.choice([0, 1])); b.extend(); b.binop("i64.add"); b.local_set(3)
        elif c < 0.60 and depth < 3:
            # typed block with conditional early exit carrying a value past an i64
            b.local_get(3)
            lab = b.block(I32); b.mark_enter(lab)
            inside = rnd.random() < 0.5
            if inside:
                b.local_get(3); b.const(I64, rnd.randint(1, 9)); b.binop("i64.add")     # an i64 below the carried value, inside the block
            b.const(I32, rnd.randint(1, 50)); b.local_get(rnd.choice([0, 1])); b.const(I32, rnd.randint(0, 3)); b.cmp(rnd.choice(["i32.eq", "i32.lt_u"])); b.br_if(0)
            b.drop()
            if inside:
                b.drop()
            random_body(rnd, b, depth + 1, budget)
            b.local_get(2)
            if rnd.random() < 0.3:
                b.br(0)
            b.end()
            b.local_get(rnd.choice([0, 1])); b.binop("i32.sub")
            b.local_set(4); b.local_set(3)
        elif c < 0.72 and depth < 3:
            b.local_get(rnd.choice([0, 1, 2])); b.const(I32, 1); b.binop("i32.and")
            lab = b.if_(None); b.mark_enter(lab)
            random_body(rnd, b, depth + 1, budget)
            if rnd.random() < 0.6:
                b.else_()
                random_body(rnd, b, depth + 1, budget)
            b.end()
        elif c < 0.80 and depth < 2 and len(b.labels) > 1:
            # conditional branch out of an enclosing void block / continue of a loop is avoided (termination): only to blocks
            cands = [i for i, l in enumerate(reversed(b.labels)) if l.kind in ("block", "if", "else") and l.rtype is None]
            if cands:
                b.local_get(rnd.choice([0, 1])); b.const(I32, rnd.randint(0, 2)); b.cmp("i32.eq"); b.br_if(rnd.choice(cands))
        elif c < 0.88 and depth < 2:
            lab = b.block(None); b.mark_enter(lab)
            random_body(rnd, b, depth + 1, budget)
            b.local_get(rnd.choice([0, 1])); b.br_table([0] * rnd.randint(0, 2), 0)
            b.dead_bytes(W.ins("i32.const", 3) + W.ins("drop"), "i32.const 3; drop")
            b.end()
        elif c < 0.94 and depth < 2:
            # bounded loop: at most (a & 3) + 1 iterations via a fresh use of local 4 as counter is avoided; use l2 delta
            b.const(I32, 0); b.local_set(4)
            lab = b.loop(); b.mark_enter(lab)
            b.local_get(4); b.const(I32, 1); b.binop("i32.add"); b.local_set(4)
            b.local_get(2); b.local_get(4); b.binop("i32.add"); b.local_set(2)
            b.local_get(4); b.local_get(0); b.const(I32, 3); b.binop("i32.and"); b.cmp("i32.lt_u"); b.br_if(0)
            b.end()
        else:
            b.nop()
        if rnd.random() < 0.08:
            break
