"""C20 - the translator touches only its own output files."""
import os, subprocess, shutil
from ..core import Job, VERIF, Undecided
from ..elayer import ejob, CC_DEFS
from . import c03


def fs_effects(ctx, job):
    """Bounded corroboration on the real binary: directory snapshots around translator runs."""
    import random
    rnd = random.Random(ctx.seed)
    pm = c03.build(ctx, "c20m", 4)
    wasm_bytes = pm.m.encode()
    facts = []
    decoys = ["s000000000x.c", "d000000001_.c", "s00000000001.c", "s000000000.c", "x0000000000.c", "S0000000000.c", "s0000000000.h", "s0000000000.cc", "notes.c", "d12345678a0.c",
              "s0000000007.c", "d0000000042.c", "sa000000000.c", "keep.txt"]
    scen = [("plain", ["out/mod.c"], []), ("nested_dot_dir", ["out.v1/sub/mod"], []), ("clean", ["out/mod.c"], ["-c"]), ("clean_files", ["out/mod.c"], ["-c", "-f", "2"]),
            ("gnuld", ["out/mod.c"], ["-d", "gnu-ld"]), ("pm", ["out/m.x.c"], ["-p", "-m"]),
            # the output directory does not exist: the run fails, and the decoys (here placed in the STARTING directory) are neither overwritten nor deleted
            ("missing_dir", ["nodir/mod.c"], ["-c", "-f", "2"]),
            # a reference module given with -r is only read (it and the input stay untouched; the outputs go where OUTPUT says)
            ("reference", ["out/mod.c"], ["-r", "ref.wasm", "-f", "2"])]
    for name, (outp,), opts in [(a, b, c) for a, b, c in scen]:
        root = os.path.dirname(ctx.path("fs", name, "x"))
        od = os.path.join(root, os.path.dirname(outp)) if name != "missing_dir" else root
        os.makedirs(od, exist_ok=True)
        if name == "missing_dir":
            open(os.path.join(root, "mod.c"), "w").write("precious"); open(os.path.join(root, "mod.h"), "w").write("precious"); open(os.path.join(root, "datasegments"), "w").write("precious")
        for dname in decoys:
            open(os.path.join(od, dname), "w").write("decoy " + dname)
        if name == "gnuld":       # a module WITH data segments: the 'datasegments' blob is written next to the output file (and nowhere else)
            from . import c06
            wasm_bytes_s = c06.build_module(False, True).encode()
            os.makedirs(os.path.join(od, "out"), exist_ok=True)          # a decoy directory with the output directory's own name inside it
        else:
            wasm_bytes_s = wasm_bytes
        open(os.path.join(root, "in.wasm"), "wb").write(wasm_bytes_s)
        if name == "reference":
            open(os.path.join(root, "ref.wasm"), "wb").write(wasm_bytes_s)
        open(os.path.join(root, "other.c"), "w").write("outside")
        before = {}
        for dp, dn, fn in os.walk(root):
            for f in fn:
                p = os.path.join(dp, f)
                before[os.path.relpath(p, root)] = open(p, "rb").read()
        # relative paths (the usual way to call it) except in the scenario "plain", which passes absolute ones
        paths = [os.path.join(root, "in.wasm"), os.path.join(root, outp)] if name == "plain" else ["in.wasm", outp]
        r = subprocess.run([ctx.w2c2()] + opts + paths, capture_output=True, cwd=root, timeout=120)
        after = {}
        for dp, dn, fn in os.walk(root):
            for f in fn:
                p = os.path.join(dp, f)
                after[os.path.relpath(p, root)] = open(p, "rb").read()
        base = os.path.basename(outp)
        hdr = (base[:base.rindex(".")] if "." in base else base) + ".h"
        import re
        allowed_new = lambda rel: os.path.dirname(rel) == os.path.dirname(outp) and (os.path.basename(rel) in (base, hdr, "datasegments") or re.match(r"^[sd]\d{10}\.c$", os.path.basename(rel)))
        created = [k for k in after if k not in before or after[k] != before[k]]
        deleted = [k for k in before if k not in after]
        okc = all(allowed_new(k) for k in created)
        may_delete = lambda rel: "-c" in opts and os.path.dirname(rel) == os.path.dirname(outp) and re.match(r"^[sd]\d{10}\.c$", os.path.basename(rel))
        okd = all(may_delete(k) for k in deleted) and ("-c" not in opts or all((k in deleted or k in created) for k in before if may_delete(k)))
        if name == "missing_dir":
            facts.append(("scenario missing_dir (%s %s): the run fails with a non-zero status" % (" ".join(opts), outp), r.returncode != 0, r.stderr.decode(errors="replace")[-200:]))
            facts.append(("scenario missing_dir: nothing at all is created, overwritten or deleted (in particular not in the starting directory)", not created and not deleted, "changed=%s deleted=%s" % (sorted(created), sorted(deleted))))
            continue
        facts.append(("scenario %s (%s %s): exit status 0" % (name, " ".join(opts), outp), r.returncode == 0, r.stderr.decode(errors="replace")[-200:]))
        facts.append(("scenario %s: only the output file, its header, s/d########## .c files and 'datasegments' inside the output directory are created or overwritten" % name, okc, "changed=%s" % sorted(created)))
        facts.append(("scenario %s: %s" % (name, "exactly the files matching the implementation-file pattern are deleted" if "-c" in opts else "nothing is deleted"), okd, "deleted=%s" % sorted(deleted)))
        facts.append(("scenario %s: the input module is unchanged" % name, after.get("in.wasm") == wasm_bytes_s, ""))
        if name == "gnuld":
            facts.append(("scenario gnuld: the data-segment blob is written as 'datasegments' inside the output directory", os.path.join(os.path.dirname(outp), "datasegments") in after, "files=%s" % sorted(k for k in after if "datasegments" in k)))
    return facts


def make_jobs(ctx):
    U = ["--unwind", "20", "--unwinding-assertions"]
    jobs = [
        ejob(ctx, "M.clean", "c20_files.c", "h_clean", ["main.c:cleanImplementationFiles"], defines=["H_CLEAN"], flags=U,
             bounded="<= 3 directory entries of <= 15 characters, all characters symbolic (glob contract: names end in .c)"),
        ejob(ctx, "M.output_names", "c20_files.c", "h_output_names", ["c.c:wasmCWriteModule", "compat.c:basename"], defines=["H_NAMES", "HAS_LIBGEN=0"], flags=U,
             bounded="output paths of <= 8 characters, all characters symbolic; bundled basename (build configuration without libgen.h)"),
        ejob(ctx, "M.chdir", "c20_files.c", "h_chdir", ["main.c:changeToOutputDirectory", "compat.c:dirname"], defines=["H_CHDIR", "HAS_LIBGEN=0"], flags=U,
             bounded="output paths of <= 8 characters; bundled dirname"),
    ]
    for j in jobs:
        j.defines = [d for d in j.defines if not (d.startswith("HAS_LIBGEN=1") and "HAS_LIBGEN=0" in j.defines)]
    b = Job("B.fs_effects", src=None, solver="static", funcs=["w2c2 binary: main + c.c file effects"], bounded="8 scenarios x 14 decoy names (directory snapshot before/after on the real binary)",
            info=dict(layer="bounded corroboration on the real binary"))
    b.static_fn = fs_effects
    jobs.append(b)
    return jobs


META = dict(
    level="model_checking",
    trusted_base=["CBMC 6.11, minisat", "ENV recorder for glob/remove/fopen/chdir (harness/c20_files.c); glob(\"*.c\") returns only names ending in .c"],
    assumptions=["names/paths bounded in length (<= 15 / <= 8 characters), every character symbolic", "main()'s option loop and the ordering chdir-before-open are covered only by the bounded run of the real binary"],
    explanation="cleanImplementationFiles deletes a name iff it matches ^[sd][0-9]{10}\\.c$ (independent predicate); wasmCWriteModule opens exactly basename(output) and its .h sibling "
                "with strcpy's non-overlap precondition checked; changeToOutputDirectory enters dirname(output). Plus directory snapshots around real runs.",
)

CLAIM = dict(
    category="model_checking",
    text="Bounded-but-complete CBMC checks (all characters symbolic, lengths bounded) of the three functions that decide which files are deleted, opened for writing and which directory "
         "is entered, against independent pattern/basename/dirname specifications; corroborated by directory snapshots around runs of the freshly built binary with near-miss decoy files.",
    note="Lengths bounded; main()'s argument loop not under contract; libgen's basename/dirname represented by the repository's bundled implementation.",
    technique="CBMC assume/assert contracts on main.c / c.c path handling with a file-system recorder; bounded directory-snapshot corroboration",
)
