"""C15 - WASI process services: args, environment, clocks, randomness, exit, thread spawn."""
from ..wasi import wasi_job


def monotone_lemma(ctx, job):
    """Lemma over the contract 'convertTimespec(t) = sec*10^9 + nsec' (proved for all values by W.convertTimespec):
    a non-decreasing clock stays non-decreasing after conversion. Linear integer arithmetic, decided by z3."""
    import subprocess
    smt = """(declare-const s1 Int)(declare-const n1 Int)(declare-const s2 Int)(declare-const n2 Int)
(assert (and (>= n1 0) (< n1 1000000000) (>= n2 0) (< n2 1000000000) (>= s1 0) (>= s2 0)))
(assert (or (< s1 s2) (and (= s1 s2) (<= n1 n2))))
(assert (not (<= (+ (* s1 1000000000) n1) (+ (* s2 1000000000) n2))))
(check-sat)"""
    r = subprocess.run(["z3", "-in", "-T:60"], input=smt.encode(), capture_output=True)
    out = r.stdout.decode().strip()
    from ..core import Undecided
    if out not in ("sat", "unsat"):
        raise Undecided("z3 on the monotonicity lemma: %s" % out[:200])
    return [("clock: sec*10^9+nsec is monotone w.r.t. the lexicographic order on normalised timespecs (so a non-decreasing host clock stays non-decreasing)", out == "unsat", out)]


def make_jobs(ctx):
    src = "c15_proc.c"
    B = "<= 3 strings of <= 2 bytes each (any byte values), guest memory object of 40 bytes"
    jobs = []
    US = "wasiArgsGet.0:5,wasiEnvironGet.0:5,wasi_snapshot_preview1__args_sizes_get.0:5,wasi_snapshot_preview1__environ_sizes_get.0:5"   # <= 3 strings
    for tag, defs, fn in (("args", [], "args"), ("environ", ["ENVIRON"], "environ")):
        jobs.append(wasi_job(ctx, "W.%s_sizes_get" % tag, src, "h_sizes", ["wasi.c:%s_sizes_get" % fn], defines=defs + ["GMEM=40"], bounded=B, unwind=42, unwindset=US))
        for bp in (1, 22):
            jobs.append(wasi_job(ctx, "W.%s_get.buf%d" % (tag, bp), src, "h_vec_get", ["wasi.c:%s_get" % fn], defines=defs + ["GMEM=40", "ARGS_BP=%du" % bp],
                                 bounded=B + "; string buffer at guest address %d, pointer array anywhere" % bp, unwind=42, unwindset=US))
    jobs.append(wasi_job(ctx, "W.init_vectors", src, "h_init_vectors", ["wasi.c:wasiInit"], defines=["GMEM=40"], bounded="environment of <= 3 strings of <= 2 bytes (any byte values, also empty strings)", unwind=42, unwindset="wasiInit.0:5"))
    jobs.append(wasi_job(ctx, "W.convertTimeval", src, "h_convert_timeval", ["wasi.c:convertTimeval"], defines=["GMEM=8"], unwind=4, solver="z3"))
    jobs.append(wasi_job(ctx, "W.addTimevals", src, "h_add_timevals", ["wasi.c:addTimevals"], defines=["GMEM=8"], unwind=4, solver="z3"))
    jobs.append(wasi_job(ctx, "W.clock_time_get", src, "h_clock", ["wasi.c:clock_time_get", "wasi.c:wasiClockTimeGet"], defines=["GMEM=32"], unwind=34,
                         bounded="seconds < 16 in this marshalling obligation; the conversion itself is W.convertTimespec (all values)"))
    jobs.append(wasi_job(ctx, "W.clock_res_get", src, "h_clock", ["wasi.c:clock_res_get", "wasi.c:wasiClockResGet"], defines=["GMEM=32", "CLOCK_RES"], unwind=34,
                         bounded="seconds < 16 in this marshalling obligation"))
    jobs.append(wasi_job(ctx, "W.convertTimespec", src, "h_convert_timespec", ["wasi.c:convertTimespec"], solver="z3", defines=["GMEM=32"], unwind=34))
    from ..core import Job
    lem = Job("L.clock_monotone", src=None, solver="static", funcs=["lemma over the contract of convertTimespec"],
              info=dict(layer="lemma", static_cmd="z3 (linear integer arithmetic): lexicographic order on normalised (sec,nsec) implies order of sec*10^9+nsec"))
    lem.static_fn = monotone_lemma
    jobs.append(lem)
    rmax = 512 if ctx.tier == "thorough" else int(__import__("os").environ.get("RMAX", "300"))
    # unbounded in the length: inductive loop contract on the chunking loop of wasiRandomGet
    from ..core import Undecided as _Und, undecided_job
    try:
        from ..core import inject_loop_contracts
        inj = inject_loop_contracts(ctx, "wasi/wasi.c", [(r"while \(result == 0 && filled < bufferLength\)(?=\s*\{)",
            "        __CPROVER_assigns(filled, result, g_ev_calls, g_ev_last, g_ev_ptr, g_ev_len, g_ev_entropy_total, g_ev_entropy_lo, g_ev_entropy_hi, g_ev_entropy_gap, __CPROVER_object_whole(g_ev_n), __CPROVER_object_whole(g_ev_seq), g_ev_cur, __CPROVER_object_whole(g_ev_seq_res), __CPROVER_object_whole(g_ev_seq_errno))\n"
            "        __CPROVER_loop_invariant(filled <= bufferLength && result == 0)\n"
            "        __CPROVER_loop_invariant(g_ev_calls >= 0 && g_ev_calls == g_ev_n[EV_getentropy] && g_ev_calls <= 16777216 && ((unsigned long long)g_ev_calls * 256 == filled || (filled == bufferLength && (unsigned long long)g_ev_calls * 256 >= filled && (unsigned long long)g_ev_calls * 256 < (unsigned long long)filled + 256)))\n"
            "        __CPROVER_loop_invariant(result != 0 || (g_ev_entropy_total == filled && !g_ev_entropy_gap && (filled == 0 ? g_ev_entropy_lo == 0 : "
            "(g_ev_entropy_lo == bufferStart && g_ev_entropy_hi == bufferStart + filled))))\n"
            "        __CPROVER_decreases(bufferLength - filled)"),
            (r"for \(; i < bufferLength; i\+\+\)(?=\s*\{\s*bufferStart\[i\] = random\(\);)",
             "        __CPROVER_assigns(i, g_ev_random_calls, __CPROVER_object_whole(bufferStart))\n"
             "        __CPROVER_loop_invariant(i <= bufferLength && g_ev_random_calls == i)\n"
             "        __CPROVER_loop_invariant(__CPROVER_same_object(g_fr_ptr, bufferStart) && (__CPROVER_POINTER_OFFSET(g_fr_ptr) < __CPROVER_POINTER_OFFSET(bufferStart) || "
             "__CPROVER_POINTER_OFFSET(g_fr_ptr) >= __CPROVER_POINTER_OFFSET(bufferStart) + (__CPROVER_size_t)bufferLength) && *g_fr_ptr == g_fr_val)\n"
             "        __CPROVER_decreases(bufferLength - i)")], "random_u")
        ju = wasi_job(ctx, "W.random_get.unbounded", "c15_random_u.c", "h_random_u", ["wasi.c:random_get", "wasi.c:wasiRandomGet"], defines=["GMEM=8"], unwind=64, solver="z3",
                      loop_contracts=True, timeout=900, info=dict(note="every length 0..2^32-1 and every buffer address; loop contract injected at the anchored header 'while (result == 0 && filled < bufferLength)'"))
        ju.includes = [inj] + ju.includes
        jobs.append(ju)
    except _Und as e:      # the loops moved: the contracts have to be re-anchored; the bounded run below still checks the function
        jobs.append(undecided_job("W.random_get.unbounded", str(e), ["wasi.c:wasiRandomGet"]))
    jobs.append(wasi_job(ctx, "W.random_get", src, "h_random", ["wasi.c:random_get", "wasi.c:wasiRandomGet"], defines=["GMEM=32", "RANDOM_MAX=%du" % rmax],
                         unwind=rmax // 256 + 40, unwindset="wasiRandomGet.1:%d" % (rmax + 2), timeout=(3000 if ctx.tier == "thorough" else None),
                         bounded="lengths 0..300 in the quick tier, 0..1024 in the thorough tier (the chunking loop and the unconditional random() pass are uniform in the length)",
                         info=dict(env="getentropy model: EIO for more than 256 bytes per call, otherwise fills exactly len bytes")))
    jobs.append(wasi_job(ctx, "W.proc_exit", src, "h_exit", ["wasi.c:proc_exit"], defines=["GMEM=32"], unwind=34))
    jobs.append(wasi_job(ctx, "W.thread_spawn", src, "h_spawn", ["wasi.c:wasi__threadX2Dspawn", "wasi.c:wasiThreadSpawn"], defines=["GMEM=32"], unwind=34,
                         bounded="export list of <= 3 entries"))
    jobs.append(wasi_job(ctx, "RG.thread_spawn_interference", src, "h_spawn", ["wasi.c:wasi__threadX2Dspawn"], defines=["GMEM=32", "SPAWN_INTERFERENCE"], unwind=34,
                         bounded="export list of <= 3 entries; one interfering spawn",
                         info=dict(note="another complete spawn is executed inside the newChild callback: identifiers must still differ")))
    # the instance a spawned thread runs on is created by the generated <module>NewChild (instance->common.newChild): contract on the generated code
    from . import c06
    jobs += c06.variant_jobs(ctx, "shared", False, True, True, only=["h_newchild"])
    return jobs


META = dict(
    level="proof",
    trusted_base=["CBMC 6.11, minisat/z3", "env/posix_model.h (clock_gettime/clock_getres/getentropy/pthread_create/exit are recording models)",
                  "getentropy(3) contract: at most 256 bytes per call (EIO otherwise), fills exactly len bytes", "atomic fetch-add is atomic (concurrent spawns)"],
    assumptions=["argument/environment vectors of <= 3 strings of <= 3 bytes", "the OS monotonic clock is non-decreasing", "times before year 2262 (no I64 overflow)"],
    explanation="args/environ sizes and contents with frame, clock ids -> host clocks and ns conversion (+ monotonicity lemma on z3), random_get tiling of the buffer for every length, "
                "proc_exit status, thread-spawn identifiers / child instance / start function incl. an interfering spawn.",
)

CLAIM = dict(
    category="proof",
    text="Per-call contracts on the real wasi.c entry points: args/environ layouts for all byte values and placements (vectors bounded), clock identifier "
         "mapping for all 2^32 ids with EINVAL otherwise, ns conversion and its monotonicity, random_get filling exactly [ptr,ptr+len) for every length in the "
         "tier's range under the documented 256-byte getentropy limit, proc_exit status, thread-spawn id/child/start-function obligations incl. one interfering spawn.",
    note="Host services are models; vectors <= 3x3 bytes; random_get: every length 0..2^32-1 by inductive loop contracts injected at the two loop headers of wasiRandomGet (plus a bounded run with lengths <= 300 quick / 1024 thorough without loop contracts); wasiInit environment count; concurrency of thread-spawn via one interference point, not schedules.",
    technique="CBMC assume/assert contracts on wasi.c against a recording POSIX model; rely/guarantee interference stub for thread-spawn",
)
