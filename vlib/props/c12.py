"""C12 - WASI file I/O returns the bytes, counts and offsets a POSIX file would."""
from ..wasi import wasi_job


def make_jobs(ctx):
    jobs = []
    src = "c12_io.c"
    B3 = "scatter/gather vectors of <= 3 segments"
    for op, opdef in (("read", []), ("write", ["OP_WRITE"])):
        for abi, abidef in (("p1", []), ("un", ["ABI_UNSTABLE"])):
            jobs.append(wasi_job(ctx, "W.fd_%s.%s" % (op, abi), src, "h_rw", ["wasi.c:fd_%s" % op, "wasi.c:wasiFD%s" % op.capitalize()],
                                 defines=opdef + abidef, bounded=B3, unwindset="wasiFDRead.0:4,wasiFDWrite.0:4"))
            jobs.append(wasi_job(ctx, "W.fd_p%s.%s" % (op, abi), src, "h_prw", ["wasi.c:fd_p%s" % op, "wasi.c:wrapPositional"],
                                 defines=opdef + abidef, bounded=B3, unwindset="wasiFDRead.0:4,wasiFDWrite.0:4"))
    for abi, abidef in (("p1", []), ("un", ["ABI_UNSTABLE"])):
        jobs.append(wasi_job(ctx, "W.fd_seek." + abi, src, "h_seek", ["wasi.c:fd_seek", "wasi.c:wasiFDSeek"], defines=abidef))
        jobs.append(wasi_job(ctx, "W.fd_filestat_get." + abi, src, "h_filestat", ["wasi.c:fd_filestat_get", "wasi.c:store%sFilestat" % ("Unstable" if abidef else "Preview1")],
                             defines=abidef + ["GMEM=80", "SEC_MAX=%d" % (1024 if ctx.tier == "thorough" else 16)], timeout=(600 if ctx.tier == "thorough" else None),
                             bounded="timestamps bounded (< 16 s quick, < 1024 s thorough) in this layout obligation (multiplication by 10^9 is proved for all values in W.convertTimespec)"))
    jobs.append(wasi_job(ctx, "W.fd_tell", src, "h_tell", ["wasi.c:fd_tell"]))
    jobs.append(wasi_job(ctx, "W.path_open", src, "h_path_open", ["wasi.c:path_open", "wasi.c:wasiPathOpen", "wasi.c:resolvePath"],
                         bounded="PATH_MAX redefined to 16, guest paths <= 12 bytes, descriptor paths <= 3 characters", defines=["GMEM=40"], unwind=42))
    jobs.append(wasi_job(ctx, "W.errno", src, "h_errno", ["wasi.c:wasiErrno"]))
    jobs.append(wasi_job(ctx, "W.convertTimespec", src, "h_convert_timespec", ["wasi.c:convertTimespec"], solver="z3"))
    return jobs


META = dict(
    level="proof",
    trusted_base=["CBMC 6.11, minisat", "env/posix_model.h: POSIX calls are recorded with their arguments and return harness-chosen results; the kernel is not modelled",
                  "spec/wasi_spec.h: errno numbers, whence encodings, oflags/fdflags/rights bits and filestat layouts transcribed from the witx",
                  "history quantifier: per-call contracts against the ghost trace + induction (paper)"],
    assumptions=["<= 3 iovec segments; guest memory object of 96 bytes; PATH_MAX = 16 for path_open", "offsets < 2^63 (off_t)"],
    explanation="fd_read/fd_write/fd_pread/fd_pwrite in both ABI name spaces (marshalling, counts, full 64-bit offset, position restore, errno), fd_seek/fd_tell "
                "(both whence generations), path_open (flag mapping for all bit patterns, registration), fd_filestat_get layouts, errno table.",
)

CLAIM = dict(
    category="proof",
    text="Per-call contracts on the real WASI file I/O entry points against a recording POSIX model, symbolic over descriptor numbers, offsets, whence values, "
         "all oflags/fdflags/rights bit patterns and stat field values: exactly the corresponding host call with the specified arguments, results and "
         "64-bit offsets stored little-endian, errno translated by name. Sequences follow by induction over the per-call contracts.",
    note="POSIX itself is an assumed model; iovec count <= 3; table symbolic up to 2^20 entries; PATH_MAX = 16 in path_open.",
    technique="CBMC assume/assert contracts on wasi.c (#included whole) against a recording POSIX model",
)
