"""C18 - growing a shared memory from several threads is linearizable and race-free."""
import os
from ..core import Job, VERIF, native_replay_generic

H = os.path.join(VERIF, "harness")


def size_probe(ctx):
    """memory.size on a SHARED memory (whose byte size is the maximum reservation): the generated code must deliver the current page count"""
    from ..gprobe import ProbeModule, Probe
    from .. import wasm as W, memrec
    from . import c05
    pm = ProbeModule("c18size", memory=(1, 4, True))
    mr = ctx.path("memrec", "memrec.h")
    with open(mr, "w") as f:
        f.write(memrec.text())
    pm.pre_includes = [mr]
    pm.decls = ["static wasmMemory g_mem;"]
    pm.add(Probe("memorysizeshared", [], W.I32, W.ins("memory.size"), spec="m_pages",
                 pre_stmts=c05.PRE + ["ND(U32, m_pages); ND(U32, m_size); g_mem.pages = m_pages; g_mem.size = m_size; g_mem.maxPages = 4; g_mem.shared = 1;"],
                 post=[("g_mr_calls == 0 && g_mem.pages == m_pages", "memory.size only reads the page count (not the reserved byte size)")], wasm_desc="(memory.size) on a shared memory"))
    return pm.jobs(ctx, ["wasm_int.h", "libm_markers.h"], "G", defines=["WASM_THREADS_PTHREADS"])


def make_jobs(ctx):
    inc = [os.path.join(ctx.repo, "w2c2")]
    rp = lambda c, j, p, v: native_replay_generic(c, j, p, v)
    # the declared maximum of a SHARED memory must reach the runtime (reader: limits flag 0x03) and every child instance must share the parent's memory
    from ..elayer import ejob
    from . import c06
    extra = [ejob(ctx, "RD.memory_type", "c08_reader.c", "h_limits", ["reader.c:wasmReadMemoryType", "reader.c:wasmReadLimits"], defines=["LIM_MEMORY"],
                  flags=["--unwind", "50", "--unwinding-assertions", "--no-signed-overflow-check", "--no-undefined-shift-check"])]
    extra += c06.variant_jobs(ctx, "shared", False, True, True, only=["h_newchild", "h_memory"])
    return size_probe(ctx) + extra + [
        Job("RG.grow_shared", os.path.join(H, "c18_grow.c"), entry="h_grow_shared", includes=inc, defines=["WASM_THREADS_PTHREADS"],
            enforce=[("wasmMemoryGrow", "c_wasmMemoryGrow")], funcs=["w2c2_base.h:wasmMemoryGrow (shared)"], replay=rp,
            info=dict(layer="RG", note="native replay executes the interfering grow inside the interposed pthread_mutex_lock")),
        Job("R.allocate_shared", os.path.join(H, "c18_grow.c"), entry="h_allocate_shared", includes=inc, defines=["WASM_THREADS_PTHREADS"],
            funcs=["w2c2_base.h:wasmMemoryAllocate (shared)"], replay=rp, info=dict(layer="R")),
    ]


META = dict(
    level="proof",
    trusted_base=["CBMC 6.11, minisat", "monitor meta-theorem: pthread mutexes give mutual exclusion, so sequential obligations per critical section + a havoc of the protected state at acquisition cover every interleaving of lock-protected code (env/mutex_monitor.h)",
                  "rely condition: other threads only grow the memory (pages monotone, <= max, size = pages*64KiB, data/maxPages stable)"],
    assumptions=["no interleaving is enumerated; 'no data race on the descriptor' in the C11 sense (plain read of .pages by memory.size, DESIGN.md D15) is not expressible as a contract and NOT decided",
                 "declared maximum <= 65535 pages"],
    explanation="Rely/guarantee obligation on the real wasmMemoryGrow(shared): result, new page count and bound are stated relative to the descriptor state at lock acquisition.",
)

CLAIM = dict(
    category="proof",
    text="Sequential rely/guarantee proof on the real wasmMemoryGrow with shared=true, unbounded in pages/delta/max: the returned old size is the page count "
         "at lock acquisition, the update is not lost, the maximum is respected, failures change nothing, the lock is released on every path and the buffer "
         "never moves. With the monitor meta-theorem this yields linearizability of concurrent grows. Data-race freedom of memory.size's plain read is not decided.",
    note="Assumed: monitor reasoning for pthread mutexes; schedules are not explored; the C11 data-race clause of the property is out of reach (stated in DESIGN.md section 6). The descriptor is snapshotted at release: nothing may be written after the unlock. No clause about WHEN a grow may fail (the specification leaves that open).",
    technique="CBMC contract (dfcc) with a havocking mutex model: rely/guarantee obligation at the linearization point",
)
