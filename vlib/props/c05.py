"""C05 - linear-memory instructions read and write the specified bytes."""
import os
from .. import wasm as W
from .. import rmem
from ..core import Job, VERIF, native_replay_generic

H = os.path.join(VERIF, "harness")


def gen_replay(c, j, p, v):
    return native_replay_generic(c, j, p, v)


LOADS = [("i32.load", W.I32), ("i64.load", W.I64), ("f32.load", W.F32), ("f64.load", W.F64),
         ("i32.load8_s", W.I32), ("i32.load8_u", W.I32), ("i32.load16_s", W.I32), ("i32.load16_u", W.I32),
         ("i64.load8_s", W.I64), ("i64.load8_u", W.I64), ("i64.load16_s", W.I64), ("i64.load16_u", W.I64),
         ("i64.load32_s", W.I64), ("i64.load32_u", W.I64)]
STORES = [("i32.store", W.I32), ("i64.store", W.I64), ("f32.store", W.F32), ("f64.store", W.F64), ("i32.store8", W.I32),
          ("i32.store16", W.I32), ("i64.store8", W.I64), ("i64.store16", W.I64), ("i64.store32", W.I64)]
BITS = {W.I32: "(U64)(%s)", W.I64: "(U64)(%s)", W.F32: "(U64)vh_f32bits(%s)", W.F64: "vh_f64bits(%s)"}
OFFSETS = [0, 1, 0xFFFFFFFF]
PRE = ["g_mr_calls = 0; g_libm_calls = 0;", "inst.m0 = &g_mem;"]


def g_probes(ctx):
    from ..gprobe import ProbeModule, Probe
    from .. import memrec
    pm = ProbeModule("c05mem", memory=(1, 4))
    mr = ctx.path("memrec", "memrec.h")
    with open(mr, "w") as f:
        f.write(memrec.text())
    pm.pre_includes = [mr]
    pm.decls = ["static wasmMemory g_mem;"]
    pm.m.datacount = True
    pm.m.data(W.const_expr(W.I32, 8), b"abc")
    pm.m.data(b"", b"PASSIVE", flag=1)
    for op, rt in LOADS:
        helper = op.replace(".", "_")
        base = op.replace(".", "").replace("_", "")
        for off in OFFSETS:
            nm = "%so%x" % (base, off)
            call = "g_mr_calls == 1 && g_mr_id == MR_%s && g_mr_mem == inst.m0 && g_mr_addr == (U64)a0 + %dull" % (helper, off)
            pm.add(Probe(nm, [W.I32], rt, W.ins("local.get", 0) + W.ins(op, 0, off),
                         post=[(call, "exactly one call of %s on memory 0 with effective address base+offset computed in 64 bits" % helper),
                               ((BITS[rt] % "r") + " == g_mr_ret", "the loaded value is delivered to the operand stack unchanged")],
                         pre_stmts=PRE, wasm_desc="(%s offset=%d (local.get 0))" % (op, off)))
        # under two other values (stack context c1)
        nm = base + "c1"
        e0, e1 = (W.I64, W.F32) if rt != W.I64 else (W.I32, W.F64)
        body = W.ins("local.get", 1) + W.ins("local.get", 2) + W.ins("local.get", 0) + W.ins(op, 0, 16) + W.ins("local.set", 3) + \
            W.ins("global.set", pm.g[e1]) + W.ins("global.set", pm.g[e0]) + W.ins("local.get", 3)
        call = "g_mr_calls == 1 && g_mr_id == MR_%s && g_mr_mem == inst.m0 && g_mr_addr == (U64)a0 + 16ull" % helper
        pm.add(Probe(nm, [W.I32, e0, e1], rt, body, locals_=[(1, rt)],
                     post=[(call, "exactly one call of %s with base+offset" % helper),
                           ((BITS[rt] % "r") + " == g_mr_ret", "the loaded value is delivered unchanged"),
                           ((BITS[e0] % ("inst.g%d" % pm.g[e0])) + " == " + (BITS[e0] % "a1"), "value two below the address survives"),
                           ((BITS[e1] % ("inst.g%d" % pm.g[e1])) + " == " + (BITS[e1] % "a2"), "value below the address survives")],
                     pre_stmts=PRE, wasm_desc="e0 e1 (%s offset=16 ..)" % op))
    for op, vt in STORES:
        helper = op.replace(".", "_")
        base = op.replace(".", "").replace("_", "")
        for off in OFFSETS:
            nm = "%so%x" % (base, off)
            call = ("g_mr_calls == 1 && g_mr_id == MR_%s && g_mr_mem == inst.m0 && g_mr_addr == (U64)a0 + %dull && g_mr_v0 == %s"
                    % (helper, off, BITS[vt] % "a1"))
            pm.add(Probe(nm, [W.I32, vt], None, W.ins("local.get", 0) + W.ins("local.get", 1) + W.ins(op, 0, off),
                         post=[(call, "exactly one call of %s on memory 0: address = base (below) + offset in 64 bits, value = top of stack" % helper)],
                         pre_stmts=PRE, wasm_desc="(%s offset=%d (local.get 0) (local.get 1))" % (op, off)))
    pm.add(Probe("memorysize", [], W.I32, W.ins("memory.size"), spec="m_pages",
                 pre_stmts=PRE + ["ND(U32, m_pages); g_mem.pages = m_pages;"],
                 post=[("g_mr_calls == 0 && g_mem.pages == m_pages", "memory.size only reads the page count")], wasm_desc="(memory.size)"))
    pm.add(Probe("memorygrow", [W.I32], W.I32, W.ins("local.get", 0) + W.ins("memory.grow"), pre_stmts=PRE,
                 post=[("g_mr_calls == 1 && g_mr_id == MR_wasmMemoryGrow && g_mr_mem == inst.m0 && g_mr_v0 == a0 && r == (U32)g_mr_ret",
                        "memory.grow calls wasmMemoryGrow(memory 0, delta) once and delivers its result")], wasm_desc="(memory.grow (local.get 0))"))
    three = W.ins("local.get", 0) + W.ins("local.get", 1) + W.ins("local.get", 2)
    pm.add(Probe("memorycopy", [W.I32] * 3, None, three + W.ins("memory.copy"), pre_stmts=PRE,
                 post=[("g_mr_calls == 1 && g_mr_id == MR_wasmMemoryCopy && g_mr_mem == inst.m0 && g_mr_mem2 == inst.m0 && g_mr_v0 == a0 && g_mr_v1 == a1 && g_mr_v2 == a2",
                        "memory.copy calls wasmMemoryCopy(m0, m0, destination, source, count) in operand order")], wasm_desc="(memory.copy d s n)"))
    pm.add(Probe("memoryfill", [W.I32] * 3, None, three + W.ins("memory.fill"), pre_stmts=PRE,
                 post=[("g_mr_calls == 1 && g_mr_id == MR_wasmMemoryFill && g_mr_mem == inst.m0 && g_mr_v0 == a0 && g_mr_v1 == a1 && g_mr_v2 == a2",
                        "memory.fill calls wasmMemoryFill(m0, destination, value, count) in operand order")], wasm_desc="(memory.fill d v n)"))
    pm.add(Probe("memoryinit", [W.I32] * 3, None, three + W.ins("memory.init", 1), pre_stmts=PRE + ["static U8 g_bytes[8]; g_mem.data = g_bytes;"],
                 requires=["a0 < 8"],
                 post=[("g_mr_calls == 1 && g_mr_id == MR_load_data && g_mr_dst == (void*)&g_mem.data[a0] && g_mr_ptr == (const void*)(d1 + a1) && g_mr_v2 == a2",
                        "memory.init copies count bytes from offset s of the designated (passive) segment to address d of memory 0")],
                 wasm_desc="(memory.init 1 d s n)"))
    return pm.jobs(ctx, ["wasm_int.h", "libm_markers.h"], "G")


from ..eexpr import expr_jobs

def make_jobs(ctx):
    jobs = []
    inc = [os.path.join(ctx.repo, "w2c2")]
    jobs += rmem.jobs(ctx, ["plain_loads", "plain_stores"], "R", ub_checks=True)
    # "lay values out little-endian" on a big-endian host too (the byte-swapping definitions; property C19 covers the rest of that configuration)
    jobs += rmem.jobs(ctx, ["plain_loads", "plain_stores"], "BEm", variant="noswapbuiltin", big_endian=True,
                      defines=["WASM_ENDIAN=WASM_BIG_ENDIAN", "WASM_THREADS_PTHREADS"])
    # wasmMemoryGrow / Allocate: arithmetic contracts, unbounded in pages / delta / maxPages
    jobs.append(Job("R.grow", os.path.join(H, "c05_grow.c"), entry="h_grow", includes=inc, defines=["GROW_CLASS_REPRESENTABLE"],
                    enforce=[("wasmMemoryGrow", "c_wasmMemoryGrow")], funcs=["w2c2_base.h:wasmMemoryGrow"], replay=gen_replay,
                    info=dict(layer="R", note="calls whose new byte size fits the 32-bit size field, or that must be rejected")))
    jobs.append(Job("R.grow.full", os.path.join(H, "c05_grow.c"), entry="h_grow", includes=inc,
                    enforce=[("wasmMemoryGrow", "c_wasmMemoryGrow")], funcs=["w2c2_base.h:wasmMemoryGrow"], replay=gen_replay,
                    info=dict(layer="R", note="full domain incl. growth to exactly 65536 pages (4 GiB)")))
    jobs.append(Job("R.allocate", os.path.join(H, "c05_grow.c"), entry="h_allocate", includes=inc, defines=["GROW_CLASS_REPRESENTABLE"],
                    funcs=["w2c2_base.h:wasmMemoryAllocate"], replay=gen_replay, ub_checks=True, info=dict(layer="R")))
    jobs.append(Job("R.allocate.65536pages", os.path.join(H, "c05_grow.c"), entry="h_allocate", includes=inc, defines=["ALLOC_CLASS_4GIB"],
                    funcs=["w2c2_base.h:wasmMemoryAllocate"], replay=gen_replay, ub_checks=True, info=dict(layer="R")))
    for fn, h in (("wasmMemoryCopy", "h_copy"), ("wasmMemoryFill", "h_fill"), ("load_data", "h_load_data")):
        jobs.append(Job("R." + fn, os.path.join(H, "c05_bulk.c"), entry=h, includes=inc, enforce=[(fn, "c_" + fn)],
                        funcs=["w2c2_base.h:" + fn], replay=gen_replay, bounded="memory object of 12 bytes, lengths <= 12 (functions are uniform in the object size)",
                        info=dict(layer="R")))
    for h, fn in (("h_fill_large", "wasmMemoryFill"), ("h_copy_large", "wasmMemoryCopy")):
        jobs.append(Job("R.%s.any_count" % fn, os.path.join(H, "c05_bulk_large.c"), entry=h, includes=inc, funcs=["w2c2_base.h:" + fn], replay=gen_replay,
                        info=dict(layer="R", note="memset / memmove are recorders: every address, value and count 0..2^32-1")))
    jobs += g_probes(ctx)
    jobs += expr_jobs(ctx, ["load", "store", "memory_size", "memory_grow"])
    from ..eexpr import memop_jobs
    jobs += memop_jobs(ctx, (0, 1))      # every plain load / store opcode -> its runtime function and result type, at every stack height
    # data segments kept outside the C file (-d gnu-ld): the bytes memory.init / the active segments copy come from blob offsets that must count
    # passive segments too (instantiation probe of C06 with a passive segment between active ones)
    from . import c06
    jobs += c06.variant_jobs(ctx, "defmem", False, True, False, opts=["-d", "gnu-ld"], prefix="Ggnuld", only=["h_memory"])
    return jobs


META = dict(
    level="proof",
    trusted_base=[
        "CBMC 6.11 (C front end, dfcc assigns instrumentation, memcpy/memmove/memset models), minisat",
        "spec/wasm_mem.h transcription of the little-endian storage rules and of memory.grow/copy/fill/init",
        "realloc keeps the old contents up to the smaller size (C standard); the grow contract is stated on the recorded (pointer,size) of the realloc call and the (pointer,0,length) of the memset call",
        "history quantifier: wf(memory) is pre- and postcondition of every operation (induction on paper)",
    ],
    assumptions=["E/S emitter contracts: array.c's growth step enters through the contract stub of harness/e_expr.c (discharged on the real array.c by job A.ensure_capacity.4, realloc/calloc being CBMC's library models); stack heights <= 2^24, label stacks <= 2^16; the string builder is the ghost recorder (its real implementation is under contract in C10); operand-stack entries hold valid value types (validated module)", "memory object of 32 bytes for loads/stores and 12 bytes for copy/fill/load_data: the functions never read size and are uniform in the object size",
                 "C compilers translate well-defined C correctly"],
    explanation="R: every plain load/store of w2c2_base.h against the little-endian byte specification with a dfcc-enforced assigns frame, "
                "wasmMemoryGrow/Allocate arithmetic unbounded in pages/delta/max, copy/fill/load_data with overlap. "
                "G: every load/store opcode with offsets 0, 1, 0xFFFFFFFF: the generated call site passes base+offset in 64 bits to the designated helper on memory 0; size/grow/copy/fill/init call sites.",
)

CLAIM = dict(
    category="proof",
    text="CBMC proofs over all addresses (within a small symbolic memory object), all stored values, all page counts and deltas: byte-exact "
         "little-endian contracts with assigns frames on the real load/store/grow/copy/fill functions, plus call-site contracts on the generated C of "
         "every memory opcode (effective address base+offset without 32-bit wrap, designated helper, operand order). The load / store emitters of c.c are "
         "under a per-opcode contract at every operand-stack height (opcode -> runtime function and result type, decoded offset, slots; thorough tier).",
    note="Trusted: CBMC memory model and libc models, spec transcription, realloc semantics. Memory objects are small (functions uniform in size). "
         "Known finding: wasmMemoryAllocate with a declared minimum of exactly 65536 pages (KNOWN-FINDING lines).",
    technique="CBMC code contracts: dfcc assigns frames + pre/postconditions on runtime memory functions; call-site contracts on generated code",
)
