"""C09 - output options and worker scheduling never change what the program does."""
import os, subprocess, hashlib, re
from .. import wasm as W
from ..core import Job, Undecided, VERIF, native_replay_generic
from ..elayer import ejob
from . import c03, c06

H = os.path.join(VERIF, "harness")


def option_probes(ctx, tag, opts):
    """the named control-flow shapes of C03 translated under an option set; multi-file output is linked from all its translation units"""
    pm = c03.build(ctx, "c09" + tag, 6)
    jobs = pm.jobs(ctx, ["wasm_int.h", "libm_markers.h"], "G." + tag, opts=opts)
    d = os.path.dirname(jobs[0].src)
    extra = sorted(os.path.join(d, f) for f in os.listdir(d) if re.match(r"^[sd][0-9]{10}\.c$", f))
    for j in jobs:
        j.extra_src = extra
        j.min_canaries = 1
        j.info["w2c2_opts"] = list(opts)
        j.info["implementation_files"] = [os.path.basename(x) for x in extra]
    return jobs, d, extra


def files_fact(ctx, job):
    """Bounded corroboration on the real binary: -f N / -t N outputs."""
    pm = c03.build(ctx, "c09t", 10)
    wasm_bytes = pm.m.encode()
    facts = []
    ref = None
    nfun = len(pm.probes)
    runs = [(f, t, rep) for f in (1, 2, 3, nfun + 1) for t in (1, 2, 4, 8) for rep in (0, 1)]
    if ctx.tier == "quick":
        runs = [(f, t, rep) for (f, t, rep) in runs if (f in (1, 3) and t in (1, 4))]
    per_f = {}
    for f, t, rep in runs:
        dd = os.path.dirname(ctx.path("gen", "files_f%d_t%d_r%d" % (f, t, rep), "x"))
        wp = os.path.join(dd, "m.wasm")
        open(wp, "wb").write(wasm_bytes)
        r = subprocess.run([ctx.w2c2(), "-f", str(f), "-t", str(t), wp, os.path.join(dd, "m.c")], capture_output=True, cwd=dd, timeout=120)
        if r.returncode != 0:
            facts.append(("-f %d -t %d: the translator exits with status 0" % (f, t), False, r.stderr.decode(errors="replace")[-300:]))
            continue
        files = sorted(x for x in os.listdir(dd) if x.endswith(".c") or x.endswith(".h"))
        digest = {x: hashlib.sha1(open(os.path.join(dd, x), "rb").read()).hexdigest() for x in files}
        key = f
        if key not in per_f:
            per_f[key] = (digest, t)
            # every function defined exactly once across the files, every file compiles on its own against the header
            text = "".join(open(os.path.join(dd, x)).read() for x in files if x.endswith(".c"))
            defs = re.findall(r"^\w[\w ]*\b(f\d+)\(mInstance\*i[^;{]*\) \{", text, re.M)
            facts.append(("-f %d: each of the %d functions is defined exactly once across main/static/dynamic files" % (f, nfun), sorted(defs) == sorted(set(defs)) and len(set(defs)) == nfun, "defs=%d distinct=%d" % (len(defs), len(set(defs)))))
            okc = True
            msg = ""
            for x in files:
                if x.endswith(".c"):
                    rc = subprocess.run(["gcc", "-std=gnu89", "-fsyntax-only", "-w", "-I", os.path.join(ctx.repo, "w2c2"), os.path.join(dd, x)], capture_output=True)
                    if rc.returncode != 0:
                        okc, msg = False, x + ": " + rc.stderr.decode(errors="replace")[:200]
            facts.append(("-f %d: every emitted file compiles on its own against the generated header" % f, okc, msg))
            want = (1 if f > nfun else 0) and 1
            nimpl = len([x for x in files if re.match(r"^[sd]\d{10}\.c$", x)])
            facts.append(("-f %d: %d functions go to ceil(n/f) implementation files (none when f exceeds the count)" % (f, nfun), nimpl == (0 if f > nfun else -(-nfun // f)), "files=%d" % nimpl))
        else:
            facts.append(("-f %d -t %d run %d: byte-identical files to -t %d" % (f, t, rep, per_f[key][1]), digest == per_f[key][0], str(sorted(set(digest) ^ set(per_f[key][0])))))
    return facts


def reference_fact(ctx, job):
    """Bounded corroboration on the real binary: -r <reference module>.  The reference is the same family of functions with some bodies changed;
    every function must be defined exactly once across the files for every -f, static files may only hold functions whose body is byte-identical in the
    reference, and the set of definitions equals that of a run without -r."""
    import copy
    pm = c03.build(ctx, "c09r", 10)
    new = pm.m.encode()
    pm2 = c03.build(ctx, "c09r", 10)
    # reference: bodies of every third function changed (a nop appended in front), so that hashes differ
    changed = set()
    for i, (locs, body) in enumerate(pm2.m.codes):
        if i % 3 == 1:
            pm2.m.codes[i] = (locs, b"\x01" + body)       # a nop in front: another body, same behaviour
            changed.add(i)
    ref = pm2.m.encode()
    facts = []
    nfun = len(pm.probes)
    base = None
    for f in ([0, 2] if ctx.tier == "quick" else [0, 1, 2, 3, nfun + 1]):
        dd = os.path.dirname(ctx.path("gen", "ref_f%d" % f, "x"))
        open(os.path.join(dd, "m.wasm"), "wb").write(new); open(os.path.join(dd, "ref.wasm"), "wb").write(ref)
        opts = ["-r", os.path.join(dd, "ref.wasm")] + (["-f", str(f)] if f else [])
        r = subprocess.run([ctx.w2c2()] + opts + [os.path.join(dd, "m.wasm"), os.path.join(dd, "m.c")], capture_output=True, cwd=dd, timeout=120)
        if r.returncode != 0:
            facts.append(("-r ref.wasm %s: the translator exits with status 0" % ("-f %d" % f if f else "(default -f)"), False, r.stderr.decode(errors="replace")[-300:]))
            continue
        files = sorted(x for x in os.listdir(dd) if x.endswith(".c"))
        text = {x: open(os.path.join(dd, x)).read() for x in files}
        defs = []
        where = {}
        for x in files:
            for m_ in re.finditer(r"^\w[\w ]*\b(f\d+)\(mInstance\*i[^;{]*\) \{", text[x], re.M):
                defs.append(m_.group(1)); where[m_.group(1)] = x
        tag = "-r ref.wasm %s" % ("-f %d" % f if f else "(default -f)")
        facts.append((tag + ": each of the %d functions is defined exactly once across main/static/dynamic files" % nfun, sorted(defs) == sorted(set(defs)) and len(set(defs)) == nfun,
                      "defs=%d distinct=%d files=%s" % (len(defs), len(set(defs)), files)))
        statics = [fn for fn, x in where.items() if re.match(r"^s\d{10}\.c$", x)]
        nimp = pm.m.nimport(0)
        wrong = sorted(fn for fn in statics if (int(fn[1:]) - nimp) in changed)
        facts.append((tag + ": a function is classified static only if the reference module contains a byte-identical body", not wrong, "changed bodies found in static files: %s; static=%s" % (wrong, sorted(statics))))
    return facts


def sha1_fact(ctx, job):
    """Bounded corroboration: the repository's sha1.c against Python's hashlib for every length 0..300 (block boundaries 55/56/63/64/119/120/127/128/...)"""
    d = os.path.dirname(ctx.path("sha1", "x", "x"))
    drv = os.path.join(d, "drv.c")
    open(drv, "w").write('#include <stdio.h>\n#include "sha1.h"\nint main(void){ static unsigned char buf[301]; unsigned char dg[20]; int n,i; for(i=0;i<301;i++) buf[i]=(unsigned char)(i*7+3);\n'
                         ' for(n=0;n<=300;n++){ SHA1(buf,(size_t)n,dg); for(i=0;i<20;i++) printf("%02x",dg[i]); printf("\\n"); } return 0; }\n')
    exe = os.path.join(d, "drv")
    r = subprocess.run(["gcc", "-O1", "-I", os.path.join(ctx.repo, "w2c2"), drv, os.path.join(ctx.repo, "w2c2", "sha1.c"), "-o", exe], capture_output=True)
    if r.returncode != 0:
        raise Undecided("cannot build the sha1 driver: " + r.stderr.decode()[-300:])
    out = subprocess.run([exe], capture_output=True, timeout=60).stdout.decode().split()
    buf = bytes((i * 7 + 3) & 255 for i in range(301))
    bad = [n for n in range(301) if n >= len(out) or out[n] != hashlib.sha1(buf[:n]).hexdigest()]
    return [("sha1.c (the function identity of -r) agrees with SHA-1 for all message lengths 0..300", not bad, "first mismatching lengths: %s" % bad[:8])]


def make_jobs(ctx):
    jobs = []
    # rely/guarantee obligations on the worker pool
    U = ["--unwind", "10", "--unwinding-assertions", "--unwindset", "vh_starts.0:45"]
    jobs.append(ejob(ctx, "RG.worker", "c09_worker.c", "h_worker", ["c.c:wasmCImplementationWriterThread"], defines=["WORKER"], flags=U, min_canaries=2,
                     info=dict(layer="RG", note="after the worker releases the mutex the shared task structure is havocked (the producer may refill it)")))
    jobs.append(ejob(ctx, "RG.producer", "c09_worker.c", "h_producer", ["c.c:wasmCWriteModuleImplementationFiles"], defines=["PRODUCER"], flags=U, solver="z3",
                     bounded="<= 6 functions, <= 8 files, <= 3 workers (functionsPerFile symbolic over all of U32)",
                     info=dict(layer="RG")))
    # semantics under the option sets
    for tag, opts in (("p", ["-p"]), ("m", ["-m"]), ("f2t3", ["-f", "2", "-t", "3"]), ("f1pm", ["-f", "1", "-p", "-m", "-t", "2"])):
        js, d, extra = option_probes(ctx, tag, opts)
        jobs += js
    jobs += c06.variant_jobs(ctx, "defmem", False, True, False, opts=["-d", "gnu-ld"], prefix="G.gnuld", only=["h_memory", "h_start"])
    jobs += c06.variant_jobs(ctx, "impmem", True, True, False, opts=["-d", "gnu-ld", "-p"], prefix="G.gnuldp", only=["h_memory"])
    jobs.append(ejob(ctx, "RD.code_hash", "c09_hash.c", "h_code_hash", ["reader.c:wasmReadCodeSection", "reader.c:wasmReadCodeLocalsDeclarations"], defines=["H_HASH"],
                     flags=["--unwind", "8", "--unwinding-assertions", "--no-signed-overflow-check", "--no-undefined-shift-check"], native_src=[],
                     bounded="2 functions, <= 2 locals groups, <= 3 code bytes each, size fields padded to <= 3 bytes; all bytes symbolic (the reader is uniform in the body length)",
                     info=dict(layer="RD", note="SHA1 replaced by a recorder of (pointer, length, destination): call-site contract; SHA-1 itself is trusted (two RFC vectors in the pinned tests)")))
    jobs.append(ejob(ctx, "M.split", "c09_hash.c", "h_split", ["main.c:wasmSplitStaticAndDynamicFunctions", "main.c:wasmFunctionIDsCompareHashes"], defines=["H_SPLIT"],
                     flags=["--unwind", "24", "--unwinding-assertions"], native_src=["stringbuilder.c", "opcode.c", "instruction.c", "valuetype.c", "sha1.c", "export.c", "debug.c", "section.c", "c.c", "reader.c", "compat.c"],
                     bounded="<= 3 functions in the module and <= 3 in the reference module, digests symbolic",
                     info=dict(layer="M")))
    jobs.append(ejob(ctx, "E.debug_names", "c09_debugnames.c", "h_debug_names", ["c.c:wasmCWriteFunctionDeclarations", "c.c:wasmCWriteFileFunctionSignature"],
                     flags=["--unwind", "40", "--unwinding-assertions"], native_src=["stringbuilder.c", "array.c", "opcode.c", "instruction.c", "valuetype.c", "sha1.c", "export.c", "debug.c", "section.c"],
                     bounded="one function, debug name of 1..3 bytes, every byte value (the writer treats the name byte by byte)",
                     info=dict(layer="E", note="stdio recorder with a state machine for the __asm__ label")))
    # -m (several modules in one program): the call probes of C04 - imports called directly, through the table, re-exported - verified from the -m output
    from . import c04
    jobs += [j for j in c04.make_jobs(ctx) if j.name.startswith("G.imp-m.")]
    j = Job("B.files_and_threads", src=None, solver="static", funcs=["w2c2 binary: -f / -t"], bounded="one module of 28 functions, -f in {1,2,3,n+1} x -t in {1,2,4,8} x 2 runs (quick: subset)",
            info=dict(layer="bounded corroboration on the real binary"))
    j.static_fn = files_fact
    jr = Job("B.reference_split", src=None, solver="static", funcs=["w2c2 binary: -r"], bounded="one module of %d functions against a reference with every third body changed, -f in {default, 2} (quick) / {default, 1, 2, 3, n+1}" % 29,
             info=dict(layer="bounded corroboration on the real binary"))
    jr.static_fn = reference_fact
    jobs.append(jr)
    js = Job("B.sha1", src=None, solver="static", funcs=["sha1.c:SHA1"], bounded="message lengths 0..300 of one byte pattern, against Python's hashlib", info=dict(layer="bounded native differential"))
    js.static_fn = sha1_fact
    jobs.append(js)
    jobs.append(j)
    return jobs


META = dict(
    level="proof",
    trusted_base=["CBMC 6.11, minisat/z3", "monitor meta-theorem for the pthread mutex/condition variables of the worker pool; the havoc of the shared task structure after release stands for the producer refilling it",
                  "sequential contracts: C03/C06 probe families re-verified under -p, -m, -f/-t (multi translation unit), -d gnu-ld"],
    assumptions=["interleavings of producer and workers are not enumerated", "-g (debug names) and -r (reference module) are not covered by a contract here",
                 "only 4 of the task fields are observable in the worker obligation (prefix, file index, start index, function list)"],
    explanation="RG: worker copies the task before clearing the slot; producer publishes exactly ceil(n/f) tasks with the partition property for all functionsPerFile values. "
                "G: semantics of the control-flow and instantiation probes under -p, -m, -f N -t N and -d gnu-ld. B: byte-identical output across thread counts and runs.",
)

CLAIM = dict(
    category="proof",
    text="Rely/guarantee proofs on the real worker and producer (task copied under the lock, partition of function indices into files for every functionsPerFile in [0,2^32), "
         "done only with an empty slot), plus re-verification of the C03/C06 probe contracts on the output produced under pretty printing, module prefixing, multi-file/multi-thread "
         "emission (all translation units linked) and the gnu-ld data-segment mode (blob taken from the file the translator wrote).",
    note="Schedules not explored; -g not covered; -r: the function digest covers exactly locals + code (SHA1 replaced by a recorder, SHA-1 itself trusted) and the static/dynamic split classifies every function once and static only on a digest match (<= 3 functions, bounded); thread-count independence of the file contents is corroborated on the real binary only (bounded).",
    technique="CBMC rely/guarantee contracts on the worker pool + per-option re-verification of generated-code contracts + bounded file comparison",
)
