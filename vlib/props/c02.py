"""C02 - floating-point arithmetic and numeric conversions survive translation."""
from .. import wasm as W
from ..gprobe import ProbeModule, operator_contexts
from ..rlayer import ROp, jobs as rjobs

I32, I64, F32, F64 = W.I32, W.I64, W.F32, W.F64
SPECS = ["wasm_int.h", "wasm_float.h", "libm_markers.h"]


def float_ops():
    """(wasm op, params, result, spec fn, trap fn, eq mode, libm id)"""
    ops = []
    for w, t, sfx in (("f32", F32, "F"), ("f64", F64, "")):
        for b in ("add", "sub", "mul", "div"):
            ops.append(("%s.%s" % (w, b), [t, t], t, "spec_%s_%s" % (w, b), None, "feq", None))
        for b in ("min", "max"):
            ops.append(("%s.%s" % (w, b), [t, t], t, "spec_%s_%s" % (w, b), None, "feq", None))
        ops.append(("%s.neg" % w, [t], t, "spec_%s_neg" % w, None, "bits", None))
        for u, lid in (("ceil", "CEIL"), ("floor", "FLOOR"), ("trunc", "TRUNC"), ("nearest", "NEARBYINT"), ("sqrt", "SQRT"),
                       ("abs", "FABS")):
            ops.append(("%s.%s" % (w, u), [t], t, None, None, "bits", "LIBM_%s%s" % (lid, sfx)))
        ops.append(("%s.copysign" % w, [t, t], t, None, None, "bits", "LIBM_COPYSIGN%s" % sfx))
        for c in ("eq", "ne", "lt", "gt", "le", "ge"):
            ops.append(("%s.%s" % (w, c), [t, t], I32, "spec_%s_%s" % (w, c), None, "bits", None))
    for it, iw in ((I32, "i32"), (I64, "i64")):
        for ft, fw in ((F32, "f32"), (F64, "f64")):
            for sg in ("s", "u"):
                ops.append(("%s.trunc_%s_%s" % (iw, fw, sg), [ft], it, "spec_%s_trunc_%s_%s" % (iw, fw, sg),
                            "spec_%s_trunc_%s_%s_trap" % (iw, fw, sg), "bits", None))
                ops.append(("%s.trunc_sat_%s_%s" % (iw, fw, sg), [ft], it, "spec_%s_trunc_sat_%s_%s" % (iw, fw, sg), None, "bits", None))
                ops.append(("%s.convert_%s_%s" % (fw, iw, sg), [it], ft, "spec_%s_convert_%s_%s" % (fw, iw, sg), None, "feq", None))
    ops += [
        ("f32.demote_f64", [F64], F32, "spec_f32_demote_f64", None, "feq", None),
        ("f64.promote_f32", [F32], F64, "spec_f64_promote_f32", None, "feq", None),
        ("i32.reinterpret_f32", [F32], I32, "spec_i32_reinterpret_f32", None, "bits", None),
        ("i64.reinterpret_f64", [F64], I64, "spec_i64_reinterpret_f64", None, "bits", None),
        ("f32.reinterpret_i32", [I32], F32, "spec_f32_reinterpret_i32", None, "bits", None),
        ("f64.reinterpret_i64", [I64], F64, "spec_f64_reinterpret_i64", None, "bits", None),
    ]
    return ops


def r_ops():
    ops = []
    for T, w in (("F32", "f32"), ("F64", "f64")):
        n = "32" if T == "F32" else "64"
        ops.append(ROp("FMIN_" + T, "FMIN(a0, a1)", T, [T, T], "spec_%s_min(a0, a1)" % w, bits="feq"))
        ops.append(ROp("FMAX_" + T, "FMAX(a0, a1)", T, [T, T], "spec_%s_max(a0, a1)" % w, bits="feq"))
    for iw, IT in (("i32", "U32"), ("i64", "U64")):
        for fw, FT in (("f32", "F32"), ("f64", "F64")):
            for sg in ("s", "u"):
                mac = "%s_TRUNC_%s_%s" % (iw.upper(), sg.upper(), fw.upper())
                ops.append(ROp(mac, mac + "(a0)", IT, [FT], "spec_%s_trunc_%s_%s(a0)" % (iw, fw, sg),
                               "spec_%s_trunc_%s_%s_trap(a0)" % (iw, fw, sg)))
                mac = "%s_TRUNC_SAT_%s_%s" % (iw.upper(), sg.upper(), fw.upper())
                ops.append(ROp(mac, mac + "(a0)", IT, [FT], "spec_%s_trunc_sat_%s_%s(a0)" % (iw, fw, sg)))
    ops += [
        ROp("f32_reinterpret_i32", "f32_reinterpret_i32(a0)", "F32", ["U32"], "spec_f32_reinterpret_i32(a0)", bits=True),
        ROp("i32_reinterpret_f32", "i32_reinterpret_f32(a0)", "U32", ["F32"], "spec_i32_reinterpret_f32(a0)"),
        ROp("f64_reinterpret_i64", "f64_reinterpret_i64(a0)", "F64", ["U64"], "spec_f64_reinterpret_i64(a0)", bits=True),
        ROp("i64_reinterpret_f64", "i64_reinterpret_f64(a0)", "U64", ["F64"], "spec_i64_reinterpret_f64(a0)"),
    ]
    return ops


from ..eexpr import expr_jobs


def conv_jobs(ctx, prefix):
    """Out-of-range float -> integer casts are undefined behaviour that CBMC's bit-vector semantics hides (the functional contract can hold by accident of
    the model); its conversion check turns every such cast into an obligation.  Kept: the float->integer ones (integer<->integer conversions are
    implementation-defined, not undefined).  The check itself wrongly flags the exactly representable minimum (e.g. (I32)-2147483648.0f), so
    that single operand is excluded here - it is covered by the functional contract of the same macro in the job without this check."""
    import copy
    ops = []
    for o in r_ops():
        if "TRUNC" not in o.name:
            continue
        o2 = copy.copy(o)
        o2.name = o.name + "_casts"
        if "_S_" in o.name:
            ft = o.params[0]
            mn = "-2147483648.0" if o.name.startswith("I32") else "-9223372036854775808.0"
            o2.requires = list(o.requires) + ["a0 != (%s)%s" % (ft, mn)]
        ops.append(o2)
    js = rjobs(ctx, ops, ["wasm_int.h", "wasm_float.h"], prefix, variant="plain", ub_checks=True)
    for j in js:
        j.flags = list(j.flags) + ["--conversion-check"]
        j.info["drop_props"] = r"arithmetic overflow on (un)?signed to (un)?signed type conversion"
        j.info["note"] = "CBMC --conversion-check; operand exactly equal to the signed minimum excluded (false alarm of the check)"
    return js

def make_jobs(ctx):
    jobs = []
    jobs += rjobs(ctx, r_ops(), ["wasm_int.h", "wasm_float.h"], "R", variant="plain", ub_checks=True)
    jobs += conv_jobs(ctx, "R")
    pm = ProbeModule("c02flt")
    for (op, pt, rt, spec, trap, eq, libm) in float_ops():
        base = op.replace(".", "").replace("_", "")
        # + - * / and conversions: the specification side is the same IEEE operation; SAT cannot merge the two
        # circuits, the SMT back end substitutes the operand equalities first (DESIGN.md 1.3)
        solver = "z3" if op.split(".")[1] in ("add", "sub", "mul", "div") or "convert" in op or "demote" in op or "promote" in op else "sat"
        if op.endswith(".div"):
            solver = "z3"     # (cvc5 is not usable for floats: CBMC hands it the FP theory, which has a single NaN -> spurious payload failures)
        for p in operator_contexts(base, op, pt, rt, spec, trap, gmap=pm.g, wasm_name=op, eq=eq, libm=libm, solver=solver):
            pm.add(p, split_nan=(op == "f64.div"))
    jobs += pm.jobs(ctx, SPECS, "G")
    jobs += expr_jobs(ctx, ["unary", "prefix", "infix"])
    return jobs


META = dict(
    level="proof",
    trusted_base=[
        "CBMC 6.11 C front end, dfcc instrumentation, IEEE-754 float theory (round-to-nearest-even) for + - * / and conversions; minisat",
        "spec/wasm_float.h transcription of WebAssembly 1.0 section 4.3.3 (integer-only definitions for comparisons, min/max, sign ops, truncation and its trap boundaries)",
        "libm functions ceil/floor/trunc/nearbyint/sqrt/fabs/copysign (+f) conform to C99 Annex F (only the opcode->function mapping and bit-exact argument/result passing are proved)",
    ],
    assumptions=["E/S emitter contracts: array.c's growth step enters through the contract stub of harness/e_expr.c (discharged on the real array.c by job A.ensure_capacity.4, realloc/calloc being CBMC's library models); stack heights <= 2^24, label stacks <= 2^16; the string builder is the ghost recorder (its real implementation is under contract in C10); operand-stack entries hold valid value types (validated module)", "C compilers translate well-defined C correctly, evaluate float expressions at their declared width (FLT_EVAL_METHOD 0) and in round-to-nearest mode",
                 "program shapes: one probe per float opcode in 3 stack contexts; all operand bit patterns symbolic"],
    explanation="R: contracts on FMIN/FMAX, the 16 TRUNC macros and the reinterpret helpers of the real w2c2_base.h for all bit patterns. "
                "G: every float opcode translated by the freshly built w2c2 and verified against the spec.",
)

CLAIM = dict(
    category="proof",
    text="CBMC proofs for all 2^32/2^64 operand bit patterns: contracts on the float macros of the real runtime header (min/max incl. signed zeros "
         "and NaN, truncation trap boundaries from an integer-only reference, saturation, reinterpretation) and on the generated C of every float "
         "opcode in three stack contexts. libm-backed opcodes: mapping proved, libm assumed.",
    note="Trusted: CBMC float theory, spec transcription, libm (C99 Annex F), compilers at FLT_EVAL_METHOD 0. Program-structure induction on paper. Out-of-range float->integer casts (undefined, but given a value by CBMC's bit-vector semantics) are separate obligations via CBMC's conversion check on the 16 TRUNC macros, with the exactly representable signed minimum excluded (false alarm of that check).",
    technique="CBMC code contracts (dfcc) on runtime float macros + per-opcode contracts on w2c2-generated C, all bit patterns",
)
