"""C06 - instantiation builds the specified initial state, once, per instance."""
import os
from .. import wasm as W
from ..core import Job, Undecided, native_replay_generic

I32, I64, F32, F64 = W.I32, W.I64, W.F32, W.F64
F32BITS, F64BITS = 0x7FA00001, 0xFFF0000000000123      # NaN payloads as global initialisers
SEGS = [(8, b"hello"), (9, b"\x00\x00"), (10, b"XY"), (65533, b"end")]     # overlapping, in order (a segment of zero bytes overwrites earlier data like any other), and one at the very end of the page


def build_module(imported_memory, with_start, shared=False):
    m = W.Module()
    started = m.import_func("env", "started", [I32, I32], [])
    if imported_memory:
        m.import_memory("env", "mem", 1, 2)
        m.import_table("env", "tab", 4, 4)                 # imported memory variant = imported table variant
    gb = m.import_global("env", "base", I32, False)
    gq = m.import_global("env", "big", I64, False)
    m.import_global("e.n-v", "da ta$_", I32, False)      # the resolver must be asked for the RAW names of the binary, not for their C-identifier escapes
    if not imported_memory:
        m.memory(1, 3, shared=shared, export="mem")
        m.table(4, 6)
    else:
        m.exports.append(("mem", 2, 0))
    g_cnt = m.global_(I32, True, W.const_expr(I32, 5))
    g_i64 = m.global_(I64, False, W.const_expr(I64, 0x8000000000000001))
    g_f32 = m.global_(F32, False, W.const_expr(F32, F32BITS))
    g_f64 = m.global_(F64, False, W.const_expr(F64, F64BITS))
    g_imp = m.global_(I32, False, W.ins("global.get", gb))
    g_imp64 = m.global_(I64, True, W.ins("global.get", gq))
    m.global_(I32, True, W.const_expr(I32, 0))           # zero initialisers: set like any other (the embedder's instance struct is not zeroed)
    m.global_(I64, False, W.const_expr(I64, 0))
    L = lambda i: W.ins("local.get", i)
    fstart = m.func([], [], W.ins("i32.const", 10) + W.ins("i32.load8_u", 0, 0) + W.ins("global.get", g_imp) + W.ins("call", started))
    if with_start:
        m.start = fstart
    m.func([], [I32], W.ins("global.get", g_cnt) + W.ins("i32.const", 1) + W.ins("i32.add") + W.ins("global.set", g_cnt) + W.ins("global.get", g_cnt), export="inc")
    m.func([I32], [I32], L(0) + W.ins("i32.load8_u", 0, 0), export="peek")
    m.func([I32, I32], [], L(0) + L(1) + W.ins("i32.store8", 0, 0), export="poke")
    m.func([], [I64], W.ins("global.get", g_i64) + W.ins("global.get", g_imp64) + W.ins("i64.xor"), export="g64")
    m.func([], [F32], W.ins("global.get", g_f32), export="gf32")
    m.func([], [F64], W.ins("global.get", g_f64), export="gf64")
    m.elem(W.const_expr(I32, 1), [fstart + 1, fstart + 2])  # active element segment into the (defined or imported) table 0
    m.data(W.const_expr(I32, SEGS[0][0]), SEGS[0][1])
    m.data(b"", b"PASSIVE", flag=1)                        # a passive segment between active ones (blob offsets in the external data-segment modes)
    for off, payload in SEGS[1:]:
        m.data(W.const_expr(I32, off), payload)
    m.data(W.ins("global.get", gb), b"Z")                 # offset from an imported global
    m.datacount = True
    return m


HARNESS = r'''
#include "vh.h"
#include "w2c2_base.h"
#include "wasm_int.h"
#include "wasm_float.h"
#include "libm_markers.h"
#include "trapstub.h"
static int g_started_calls; static void* g_started_inst; static U32 g_started_a, g_started_b; static int g_state_complete_at_start;
void env__started(void* inst, U32 a, U32 b);
#include "MODNAME.c"
static MODNAMEInstance inst, inst2;
/* the embedder's instance object is uninitialised storage (the repository's examples declare it on the stack) */
#ifdef VERIF_NATIVE
#define HAVOC_INSTANCE(x) memset(&(x), 0xA5, sizeof(x))
#else
#define HAVOC_INSTANCE(x) do { MODNAMEInstance fresh_; (x) = fresh_; } while (0)
#endif
static wasmFunc g_slots[4]; static wasmTable g_hosttab; static void sentinel(void) { }
static wasmMemory g_hostmem; static U8* g_hostdata; static U32 g_base; static U64 g_big; static int g_resolve_calls; static int g_raw_names_seen; static U32 g_punct;
static void* resolve(const char* module, const char* name) {
    g_resolve_calls++;
    if (strcmp(module, "env") == 0 && strcmp(name, "mem") == 0) return &g_hostmem;
    if (strcmp(module, "env") == 0 && strcmp(name, "tab") == 0) return &g_hosttab;
    if (strcmp(module, "env") == 0 && strcmp(name, "base") == 0) return &g_base;
    if (strcmp(module, "env") == 0 && strcmp(name, "big") == 0) return &g_big;
    if (strcmp(module, "e.n-v") == 0 && strcmp(name, "da ta$_") == 0) { g_raw_names_seen++; return &g_punct; }
    return 0;
}
#ifdef IMPORTED_MEMORY
#define MEMP(i) ((i).env__mem)
#else
#define MEMP(i) ((i).m0)
#endif
void env__started(void* instp, U32 a, U32 b) {
    MODNAMEInstance* ii = (MODNAMEInstance*)instp;
    g_started_calls++; g_started_inst = instp; g_started_a = a; g_started_b = b;
    /* the start function runs after ALL of the initial state has been built */
    g_state_complete_at_start = (MEMP(*ii) != 0 && MEMP(*ii)->data[8] == 'h' && MEMP(*ii)->data[65535] == 'd' && ii->g3 == 5u && ii->g7 == g_base);
}
static void host_setup(U32 base, U64 big) {
    g_base = base; g_big = big; g_started_calls = 0; g_resolve_calls = 0; g_raw_names_seen = 0; g_state_complete_at_start = 0; g_libm_calls = 0; g_spec_trap = SPEC_NOTRAP;
#ifdef IMPORTED_MEMORY
    g_hostdata = (U8*)calloc(65536, 1); ASSUME(g_hostdata != 0);
    { int i; for (i = 0; i < 4; i++) g_slots[i] = (wasmFunc)sentinel; g_hosttab.data = g_slots; g_hosttab.size = 4; g_hosttab.maxSize = 4; }
    g_hostmem.data = g_hostdata; g_hostmem.size = 65536; g_hostmem.pages = 1; g_hostmem.maxPages = 2; g_hostmem.shared = 0; g_hostmem.futex = 0; g_hostmem.futexFree = 0;
#endif
}
/* expected byte k of memory 0 after instantiation: zero, then the active segments applied IN ORDER */
static U8 expected_byte(U32 k, U32 base) {
    U8 v = 0;
    if (k >= 8 && k < 13) v = (U8)"hello"[k - 8];
    if (k >= 9 && k < 11) v = 0;
    if (k >= 10 && k < 12) v = (U8)"XY"[k - 10];
    if (k >= 65533) v = (U8)"end"[k - 65533];
    if (k == base) v = 'Z';
    return v;
}
void h_memory(void) { ND(U32, base); ND(U64, big); ND(U32, k); ASSUME(base >= 20 && base <= 23 && k < 65536); host_setup(base, big);
    HAVOC_INSTANCE(inst); MODNAMEInstantiate(&inst, resolve);
#ifdef WASM_THREADS_PTHREADS
    /* a shared memory reserves its declared maximum (so that growth never moves it); its CURRENT size is the declared minimum */
    OBL(MEMP(inst) != 0 && MEMP(inst)->pages == 1 && MEMP(inst)->shared && MEMP(inst)->size == 3u * 65536u, "instantiate: a shared memory 0 reports its declared minimum as current size");
#else
    OBL(MEMP(inst) != 0 && MEMP(inst)->pages == 1 && MEMP(inst)->size == 65536u, "instantiate: memory 0 has its declared minimum size");
#endif
    OBL(MEMP(inst)->data[k] == expected_byte(k, base), "instantiate: every byte of memory 0 is zero except the active data segments, copied to their evaluated offsets (constant or imported global) IN SEGMENT ORDER, into the designated memory whether defined or imported");
#ifdef IMPORTED_MEMORY
    OBL(MEMP(inst) == &g_hostmem, "instantiate: the imported memory is the one the resolver returned");
#else
    OBL(MEMP(inst)->maxPages == 3, "instantiate: the declared maximum is recorded");
#endif
    CANARY("memory"); }
void h_table(void) { ND(U32, base); ND(U64, big); ND(U32, k); ASSUME(base >= 20 && base <= 23 && k < 4); host_setup(base, big);
    HAVOC_INSTANCE(inst); MODNAMEInstantiate(&inst, resolve);
#ifdef IMPORTED_MEMORY
    OBL(inst.env__tab == &g_hosttab, "instantiate: the imported table is the one the resolver returned");
    OBL(g_slots[1] != (wasmFunc)sentinel && g_slots[2] != (wasmFunc)sentinel && g_slots[1] != g_slots[2] && g_slots[1] != 0 && g_slots[2] != 0, "instantiate: active element segments are written into an IMPORTED table too");
    OBL((k == 1 || k == 2) || g_slots[k] == (wasmFunc)sentinel, "instantiate: no other slot of the imported table is written");
#else
    OBL(inst.t0.size == 4 && inst.t0.maxSize == 6 && inst.t0.data != 0, "instantiate: a defined table has its declared minimum size and records its maximum");
    OBL(inst.t0.data[1] != 0 && inst.t0.data[2] != 0 && inst.t0.data[1] != inst.t0.data[2], "instantiate: active element segments are written to their offset");
    OBL((k == 1 || k == 2) || inst.t0.data[k] == 0, "instantiate: every other entry of a defined table is null");
#endif
    CANARY("table"); }
/* <module>NewChild: the instance a spawned thread runs on (wasi thread-spawn calls instance->common.newChild) */
void h_newchild(void) { ND(U32, base); ND(U64, big); MODNAMEInstance* child; ASSUME(base >= 20 && base <= 23); host_setup(base, big);
    HAVOC_INSTANCE(inst); MODNAMEInstantiate(&inst, resolve);
    (void)MODNAME_inc(&inst);                                  /* the parent's mutable global is now 6 */
    child = MODNAMENewChild(&inst);
    ASSUME(child != 0);
    OBL(child != &inst && child->common.funcExports == inst.common.funcExports && child->common.resolveImports == inst.common.resolveImports,
        "new child: a separate instance with the parent's export table and resolver");
    OBL(child->common.newChild == inst.common.newChild && inst.common.newChild != 0, "new child: a child can itself create children (a thread spawned by a spawned thread)");
    OBL(child->g3 == 5u && inst.g3 == 6u, "new child: defined globals are initialised afresh from their initialisers, the parent's are untouched");
    OBL(child->env__base == &g_base && child->g7 == base, "new child: imports are bound through the parent's resolver");
#ifdef WASM_THREADS_PTHREADS
    OBL(MEMP(*child) == MEMP(inst), "new child: a SHARED memory is shared with the parent (same descriptor)");
#endif
    CANARY("newchild"); }
/* <module>FreeInstance releases what the instance owns - never an imported memory, which belongs to (and may still be used by) its owner */
void h_free(void) { ND(U32, base); ND(U64, big); ASSUME(base >= 20 && base <= 23); host_setup(base, big);
    HAVOC_INSTANCE(inst); MODNAMEInstantiate(&inst, resolve);
    MODNAMEFreeInstance(&inst);
#ifdef IMPORTED_MEMORY
    OBL(g_hostmem.data == g_hostdata && g_hostmem.pages == 1 && g_hostmem.size == 65536u, "free instance: an imported memory is left to its owner (descriptor untouched)");
    OBL(g_hostdata[8] == 'h', "free instance: the imported memory's contents are still there (not released: CBMC's deallocated-object check)");
#endif
    CANARY("free"); }
void h_globals(void) { ND(U32, base); ND(U64, big); ASSUME(base >= 20 && base <= 23); host_setup(base, big);
    HAVOC_INSTANCE(inst); MODNAMEInstantiate(&inst, resolve);
    OBL(inst.g3 == 5u && inst.g4 == 0x8000000000000001ull, "instantiate: integer globals hold their constant initialisers");
    OBL(vh_f32bits(inst.g5) == F32BITSu && vh_f64bits(inst.g6) == F64BITSull, "instantiate: float globals hold the exact bit pattern (NaN payloads) of their initialisers");
    OBL(inst.g9 == 0 && inst.g10 == 0, "instantiate: globals with a zero initialiser are zero (whatever the instance storage held before)");
    OBL(inst.g7 == base && inst.g8 == big, "instantiate: globals initialised by global.get of an imported global take the value the resolver's object holds");
    OBL(inst.env__base == &g_base && inst.env__big == &g_big, "instantiate: imported globals are bound to what the resolver returned");
    OBL(g_raw_names_seen == 1, "instantiate: the resolver is asked for the import's module and field names exactly as they are in the binary (punctuation, blanks and underscores included), once");
    OBL(MODNAME_g64(&inst) == (0x8000000000000001ull ^ big) && vh_f32bits(MODNAME_gf32(&inst)) == F32BITSu && vh_f64bits(MODNAME_gf64(&inst)) == F64BITSull,
        "instantiate: exported functions are reachable under <module>_<name> and observe the initial state");
    CANARY("globals"); }
void h_start(void) { ND(U32, base); ND(U64, big); ASSUME(base >= 20 && base <= 23); host_setup(base, big);
    HAVOC_INSTANCE(inst); MODNAMEInstantiate(&inst, resolve);
#ifdef WITH_START
    OBL(g_started_calls == 1, "instantiate: the start function runs exactly once");
    OBL(g_started_inst == (void*)&inst && g_started_a == 'X' && g_started_b == base, "instantiate: the start function runs on this instance and observes initialised memory and globals");
    OBL(g_state_complete_at_start, "instantiate: the start function runs after memories, data segments and globals are complete");
#else
    OBL(g_started_calls == 0, "instantiate: without a start section nothing is run");
#endif
    CANARY("start"); }
void h_persist_two_instances(void) { ND(U32, base); ND(U64, big); ND(U32, addr); U32 a, b, c; ASSUME(base >= 20 && base <= 23 && addr < 65536); host_setup(base, big);
    HAVOC_INSTANCE(inst); MODNAMEInstantiate(&inst, resolve);
    HAVOC_INSTANCE(inst2); MODNAMEInstantiate(&inst2, resolve);
    a = MODNAME_inc(&inst); b = MODNAME_inc(&inst); c = MODNAME_inc(&inst2);
    OBL(a == 6 && b == 7, "mutable state persists across calls within an instance");
    OBL(c == 6, "a second instance has its own copy of every defined global");
#ifndef IMPORTED_MEMORY
    OBL(inst.m0 != inst2.m0 && inst.m0->data != inst2.m0->data, "two instances have distinct defined memories");
    MODNAME_poke(&inst2, addr, 0x5A);
    OBL(MODNAME_peek(&inst, addr) == expected_byte(addr, base), "a store through one instance is invisible through the other");
    OBL(MODNAME_mem(&inst) == inst.m0, "exported memory is reachable under <module>_<name>");
#else
    OBL(MODNAME_mem(&inst) == &g_hostmem, "exported (imported) memory is reachable under <module>_<name>");
#endif
    CANARY("persist"); }
'''


def start0_jobs(ctx):
    """A module without function imports whose START function is function 0 (the start section's payload is the single byte 0x00) and with the smallest
    possible sections everywhere: nothing may be mistaken for 'empty'."""
    m = W.Module()
    g = m.global_(I32, True, W.const_expr(I32, 0))
    f0 = m.func([], [], W.ins("i32.const", 41) + W.ins("global.set", g))
    m.func([], [I32], W.ins("global.get", g), export="get")
    m.start = f0
    modname = "c06start0"
    wasm_bytes = m.encode()
    d, r = ctx.translate(wasm_bytes, modname, ())
    if d is None:
        from ..core import rejected_job
        return [rejected_job("G.start0.translate", modname, r, wasm_bytes.hex())]
    text = r'''
#include "vh.h"
#include "w2c2_base.h"
#include "trapstub.h"
#include "MODNAME.c"
static MODNAMEInstance inst;
void h_start0(void) { MODNAMEInstance fresh_; 
#ifndef VERIF_NATIVE
    inst = fresh_;
#endif
    MODNAMEInstantiate(&inst, 0);
    OBL(MODNAME_get(&inst) == 41u, "instantiate: the start function runs also when it is function 0 of a module without imports (start section payload = one zero byte)");
    CANARY("start0"); }
'''.replace("MODNAME", modname)
    hp = os.path.join(d, "gh_%s.c" % modname)
    open(hp, "w").write(text)
    return [Job("G.start0", hp, entry="h_start0", includes=[d, os.path.join(ctx.repo, "w2c2")], flags=["--unwind", "10", "--unwinding-assertions"],
                funcs=["generated:%sInstantiate (start function 0)" % modname], replay=lambda c, j, p, v: native_replay_generic(c, j, p, v),
                info=dict(layer="G", generated_c=os.path.join(d, modname + ".c"), module_hex=wasm_bytes.hex()))]


def twomem_jobs(ctx):
    """two defined memories, the SECOND one exported: '<module>_<name>' must denote the exported memory, not memory 0"""
    m = W.Module()
    m.memory(1, 1)
    m.memory(2, 3)
    m.exports.append(("second", 2, 1))
    m.exports.append(("first", 2, 0))
    m.func([], [I32], W.ins("i32.const", 0), export="f")
    modname = "c06twomem"
    wasm_bytes = m.encode()
    d, r = ctx.translate(wasm_bytes, modname, ())
    if d is None:
        from ..core import rejected_job
        return [rejected_job("G.twomem.translate", modname, r, wasm_bytes.hex())]
    text = r'''
#include "vh.h"
#include "w2c2_base.h"
#include "trapstub.h"
#include "MODNAME.c"
static MODNAMEInstance inst;
void h_twomem(void) {
    MODNAMEInstantiate(&inst, 0);
    OBL(inst.m0 != 0 && inst.m1 != 0 && inst.m0 != inst.m1 && inst.m0->pages == 1 && inst.m1->pages == 2 && inst.m1->maxPages == 3, "instantiate: every defined memory has its own declared minimum size");
    OBL(MODNAME_second(&inst) == inst.m1 && MODNAME_first(&inst) == inst.m0, "exports: <module>_<name> of an exported memory denotes THAT memory (the export's index), not memory 0");
    CANARY("twomem"); }
'''.replace("MODNAME", modname)
    hp = os.path.join(d, "gh_%s.c" % modname)
    open(hp, "w").write(text)
    return [Job("G.twomem", hp, entry="h_twomem", includes=[d, os.path.join(ctx.repo, "w2c2")], flags=["--unwind", "10", "--unwinding-assertions"],
                funcs=["generated:%sInstantiate / memory export accessors" % modname], replay=lambda c, j, p, v: native_replay_generic(c, j, p, v), solver="z3",
                info=dict(layer="G", generated_c=os.path.join(d, modname + ".c"), module_hex=wasm_bytes.hex()))]


def variant_jobs(ctx, tag, impmem, start, shared, opts=(), prefix="G", only=None):
    jobs = []
    modname = "c06%s%s" % (tag, "" if prefix == "G" else "".join(ch for ch in prefix.lower() if ch.isalnum()))
    m = build_module(impmem, start, shared)
    wasm_bytes = m.encode()
    d, r = ctx.translate(wasm_bytes, modname, opts)
    if d is None:
        from ..core import rejected_job
        return [rejected_job("%s.%s.translate" % (prefix, tag), modname, r, wasm_bytes.hex())]
    text = HARNESS.replace("MODNAME", modname).replace("F32BITSu", "0x%08Xu" % F32BITS).replace("F64BITSull", "0x%016Xull" % F64BITS)
    blob = os.path.join(d, "datasegments")
    if os.path.exists(blob):
        # external data-segment modes: the blob the linker would provide (ld -r -b binary datasegments) is defined from the file the translator wrote
        data = open(blob, "rb").read()
        text = "unsigned char _binary_datasegments_start[] = {%s};\n" % ",".join(str(b) for b in data) + text
    defs = []
    if impmem:
        defs.append("IMPORTED_MEMORY")
    if start:
        defs.append("WITH_START")
    hp = os.path.join(d, "gh_%s.c" % modname)
    with open(hp, "w") as f:
        f.write(text)
    hs = [("h_memory", "InitMemories / data segments"), ("h_table", "InitTables / element segments"), ("h_newchild", "NewChild"), ("h_free", "FreeInstance"), ("h_globals", "InitGlobals / InitImports / export wrappers"), ("h_start", "start function"),
          ("h_persist_two_instances", "instances")]
    if tag == "nostart":
        hs = [("h_start", "start function")]
    if tag == "shared":
        hs = [("h_memory", "InitMemories (shared memory)"), ("h_newchild", "NewChild")]
        defs.append("WASM_THREADS_PTHREADS")
    for h, fn in hs:
        if only and h not in only:
            continue
        jobs.append(Job("%s.%s.%s" % (prefix, tag, h[2:]), hp, entry=h, includes=[d, os.path.join(ctx.repo, "w2c2")], defines=defs,
                        flags=["--unwind", "10", "--unwinding-assertions"], funcs=["generated:%sInstantiate (%s)" % (modname, fn)],
                        solver="z3",   # a symbolic index into a zero-initialised 64 KiB object: the SMT array theory needs < 1 s where SAT does not finish in 10 minutes
                        timeout=600, replay=lambda c, j, p, v: native_replay_generic(c, j, p, v),
                        info=dict(layer="G", generated_c=os.path.join(d, modname + ".c"), memory=("imported" if impmem else "defined"), start=start, w2c2_opts=list(opts), module_hex=wasm_bytes.hex())))
    return jobs


def make_jobs(ctx):
    jobs = []
    for tag, impmem, start, shared in [("defmem", False, True, False), ("impmem", True, True, False), ("nostart", False, False, False), ("shared", False, True, True)]:
        jobs += variant_jobs(ctx, tag, impmem, start, shared)
    jobs += start0_jobs(ctx)
    jobs += twomem_jobs(ctx)
    # data segments kept outside the C file (-d gnu-ld): offsets into the blob must skip passive segments as well
    jobs += variant_jobs(ctx, "defmem", False, True, False, opts=["-d", "gnu-ld"], prefix="Ggnuld", only=(None if ctx.tier == "thorough" else ["h_memory"]))
    if ctx.tier == "thorough":
        jobs += variant_jobs(ctx, "impmem", True, True, False, opts=["-p"], prefix="Gp")
    # global.get / global.set emitters at every stack height (the state that "persists across calls" is read and written through them)
    from ..eexpr import expr_jobs
    jobs += expr_jobs(ctx, ["global_get", "global_set"])
    return jobs


META = dict(
    level="proof",
    trusted_base=["CBMC 6.11 (calloc/memcpy models on a full 64 KiB page), minisat",
                  "probe family: {defined, imported} memory x {start, no start}; 4 active segments (overlapping, page end, imported-global offset) + 1 passive; 6 globals of every type"],
    assumptions=["E/S emitter contracts: array.c's growth step enters through the contract stub of harness/e_expr.c (discharged on the real array.c by job A.ensure_capacity.4, realloc/calloc being CBMC's library models); stack heights <= 2^24, label stacks <= 2^16; the string builder is the ghost recorder (its real implementation is under contract in C10); operand-stack entries hold valid value types (validated module)", "module shapes enumerated (3 probe modules); the imported-global offset is symbolic in 20..23; all other values of the modules are fixed by the module text"],
    explanation="Contracts on <module>Instantiate and the export wrappers of w2c2-generated C: declared sizes, every byte of memory 0 (symbolic index) equals the segments applied in order "
                "and zero elsewhere, for defined and imported memories; globals from constants (NaN payloads) and imported globals; imports bound to the resolver's objects; start exactly once "
                "after everything; persistence and independence of two instances; documented export symbols.",
)

CLAIM = dict(
    category="proof",
    text="Per-module proofs on the generated instantiation code with a symbolic byte index over the whole 64 KiB page ('all other bytes zero' included), symbolic imported-global "
         "values, and a start-function host stub that checks the completed state from inside; two live instances for persistence/independence.",
    note="Module shapes are enumerated, not quantified; interleavings of calls on several instances are represented by one sequence. Tables/element segments are under C04.",
    technique="CBMC contracts on w2c2-generated instantiation code (whole-instance assume/assert harness with resolver and host stubs)",
)
