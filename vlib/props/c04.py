"""C04 - direct, indirect, recursive and imported calls reach the right function."""
import os
from .. import wasm as W
from ..core import Job, Undecided, native_replay_generic

I32, I64, F32, F64 = W.I32, W.I64, W.F32, W.F64


def build_module(defined_table):
    m = W.Module()
    h3 = m.import_func("env", "host3", [I32, I64, F32], [I64])
    h0 = m.import_func("env", "host0", [], [I32])
    hv = m.import_func("env", "hostv", [F64, I32], [])
    h3dup = m.import_func("env", "host3", [I32, I64, F32], [I64])      # the same host function imported a second time: still its own function index
    m.exports.append(("rehost3", 0, h3))                               # an imported function exported again: the wrapper has the IMPORT's signature
    if not defined_table:
        m.import_table("env", "tab", 8, 8)
    gbase = m.import_global("env", "base", I32, False)
    t2 = m.type([I32, I32], [I32])
    if defined_table:
        m.table(8, 8)
    L = lambda i: W.ins("local.get", i)
    f_sub = m.func([I32, I32], [I32], L(0) + L(1) + W.ins("i32.sub"))
    f_add = m.func([I32, I32], [I32], L(0) + L(1) + W.ins("i32.add"))
    f_xor = m.func([I32, I32], [I32], L(0) + L(1) + W.ins("i32.xor"))
    # mix(a i32, b i64, c f32, d f64, e i32) -> i64 : every argument position is distinguishable
    mixbody = (L(0) + W.ins("i64.extend_i32_u") + W.ins("i64.const", 1) + W.ins("i64.shl") +
               L(1) + W.ins("i64.const", 3) + W.ins("i64.rotl") + W.ins("i64.xor") +
               L(2) + W.ins("i32.reinterpret_f32") + W.ins("i64.extend_i32_u") + W.ins("i64.const", 7) + W.ins("i64.shl") + W.ins("i64.xor") +
               L(3) + W.ins("i64.reinterpret_f64") + W.ins("i64.const", 11) + W.ins("i64.rotl") + W.ins("i64.xor") +
               L(4) + W.ins("i64.extend_i32_u") + W.ins("i64.const", 40) + W.ins("i64.shl") + W.ins("i64.xor"))
    f_mix = m.func([I32, I64, F32, F64, I32], [I64], mixbody)
    # callers (exported)
    m.func([I32, I64, F32], [I64], L(0) + L(1) + L(2) + W.ins("call", h3), export="callhost3")
    m.func([], [I32], W.ins("call", h0) + W.ins("call", h0) + W.ins("i32.sub"), export="callhost0twice")
    m.func([I32, I64, F32], [I64], L(0) + L(1) + L(2) + W.ins("call", h3dup), export="callhost3dup")
    m.func([F64, I32], [I32], L(1) + L(0) + L(1) + W.ins("call", hv), export="callhostv")       # a value below the arguments survives
    m.func([I32, I64, F32, F64, I32], [I64], L(0) + L(1) + L(2) + L(3) + L(4) + W.ins("call", f_mix), export="callmix")
    m.func([I32, I64, F32, F64, I32], [I64], W.ins("i64.const", 5) + L(4) + L(1) + L(2) + L(3) + L(0) + W.ins("call", f_mix) + W.ins("i64.add"), export="callmixperm")
    # recursion: tri(n) = n + tri(n-1), tri(0) = 0 ; mutual recursion even/odd
    nfun = m.nimport(0) + len(m.funcs)
    tri = nfun
    m.func([I32], [I32], L(0) + W.ins("i32.eqz") + W.ins("if", I32) + W.ins("i32.const", 0) + W.ins("else") + L(0) + L(0) + W.ins("i32.const", 1) + W.ins("i32.sub") +
           W.ins("call", tri) + W.ins("i32.add") + W.ins("end"), export="tri")
    ev = tri + 1
    od = tri + 2
    m.func([I32], [I32], L(0) + W.ins("i32.eqz") + W.ins("if", I32) + W.ins("i32.const", 1) + W.ins("else") + L(0) + W.ins("i32.const", 1) + W.ins("i32.sub") + W.ins("call", od) + W.ins("end"), export="iseven")
    m.func([I32], [I32], L(0) + W.ins("i32.eqz") + W.ins("if", I32) + W.ins("i32.const", 0) + W.ins("else") + L(0) + W.ins("i32.const", 1) + W.ins("i32.sub") + W.ins("call", ev) + W.ins("end"), export="isodd")
    m.func([I32, I32, I32], [I32], L(0) + L(1) + L(2) + W.ins("call_indirect", t2, 0), export="ind")
    m.func([I32, I32, I32, I64], [I64], L(3) + L(0) + L(1) + L(2) + W.ins("call_indirect", t2, 0) + W.ins("i64.extend_i32_u") + W.ins("i64.xor"), export="indbelow")
    # zero-parameter callee through the table: its result slot is the slot of the table index itself
    t0 = m.type([], [I32])
    f_k = m.func([], [I32], W.ins("i32.const", 1111))
    m.func([I32, I32], [I32], L(0) + L(1) + W.ins("call_indirect", t0, 0) + W.ins("i32.xor"), export="ind0")
    m.elem(W.ins("i32.const", 7), [f_k])
    m.elem(W.ins("i32.const", 4), [h0])                   # an IMPORTED function in the table (same type as f_k: reached through ind0)
    m.elem(W.ins("global.get", gbase), [f_sub, f_add])
    m.elem(W.ins("i32.const", 5), [f_xor, f_sub])
    return m


HARNESS = r'''
#include "vh.h"
#include "w2c2_base.h"
#include "wasm_int.h"
#include "wasm_float.h"
#include "libm_markers.h"
#include "trapstub.h"
/* ---- host side ---- */
static int g_h3_calls, g_h0_calls, g_hv_calls; static void* g_h_inst; static U32 g_h_a0; static U64 g_h_a1; static U32 g_h_a2bits; static U64 g_h_ret;
static U64 g_hv_dbits; static U32 g_hv_i; static U32 g_h0_ret[2];
U64 env__host3(void* inst, U32 a, U64 b, F32 c) { ND(U64, h3ret); g_h3_calls++; g_h_inst = inst; g_h_a0 = a; g_h_a1 = b; g_h_a2bits = vh_f32bits(c); g_h_ret = h3ret; return h3ret; }
U32 env__host0(void* inst) { ND(U32, h0ret); g_h_inst = inst; if (g_h0_calls < 2) g_h0_ret[g_h0_calls] = h0ret; g_h0_calls++; return h0ret; }
void env__hostv(void* inst, F64 d, U32 i) { g_hv_calls++; g_h_inst = inst; g_hv_dbits = vh_f64bits(d); g_hv_i = i; }
#include "MODNAME.c"
static MODNAMEInstance inst;
static wasmFunc g_slots[8]; static wasmTable g_tab; static U32 g_base;
static void sentinel(void) { }
static void* resolve(const char* module, const char* name) {
    if (strcmp(module, "env") == 0 && strcmp(name, "tab") == 0) return &g_tab;
    if (strcmp(module, "env") == 0 && strcmp(name, "base") == 0) return &g_base;
    return 0;
}
static void setup(U32 base) {
    int i; g_base = base; g_tab.data = g_slots; g_tab.size = 8; g_tab.maxSize = 8;
    for (i = 0; i < 8; i++) g_slots[i] = (wasmFunc)sentinel;
    MODNAMEInstantiate(&inst, resolve);
    g_h3_calls = g_h0_calls = g_hv_calls = 0; g_libm_calls = 0; g_spec_trap = SPEC_NOTRAP;
}
#ifdef DEFINED_TABLE
#define TAB (inst.t0)
#else
#define TAB (*inst.env__tab)
#endif
static U64 spec_mix(U32 a, U64 b, F32 c, F64 d, U32 e) {
    return ((U64)a << 1) ^ spec_i64_rotl(b, 3) ^ ((U64)vh_f32bits(c) << 7) ^ spec_i64_rotl(vh_f64bits(d), 11) ^ ((U64)e << 40);
}
void h_callhost3(void) { ND(U32, a); ND(U64, b); ND(F32, c); ND(U32, base); U64 r; ASSUME(base <= 2); setup(base);
    r = MODNAME_callhost3(&inst, a, b, c);
    OBL(g_h3_calls == 1 && g_h0_calls == 0 && g_hv_calls == 0, "import call: exactly the designated host function is invoked, once");
    OBL(g_h_inst == (void*)&inst, "import call: the host function receives the calling instance");
    OBL(g_h_a0 == a && g_h_a1 == b && g_h_a2bits == vh_f32bits(c), "import call: arguments arrive in declaration order, bit-exact");
    OBL(r == g_h_ret, "import call: the result is delivered to the caller's operand stack");
    CANARY("callhost3"); }
void h_callhost3dup(void) { ND(U32, a); ND(U64, b); ND(F32, c); ND(U32, base); U64 r; ASSUME(base <= 2); setup(base);
    r = MODNAME_callhost3dup(&inst, a, b, c);
    OBL(g_h3_calls == 1 && g_h0_calls == 0 && g_hv_calls == 0 && g_h_a0 == a && g_h_a1 == b && g_h_a2bits == vh_f32bits(c) && r == g_h_ret,
        "import call through a SECOND import of the same host function: it has its own function index, all later indices are unaffected");
    CANARY("callhost3dup"); }
void h_reexport(void) { ND(U32, a); ND(U64, b); ND(F32, c); ND(U32, base); U64 r; ASSUME(base <= 2); setup(base);
    r = MODNAME_rehost3(&inst, a, b, c);
    OBL(g_h3_calls == 1 && g_h_inst == (void*)&inst && g_h_a0 == a && g_h_a1 == b && g_h_a2bits == vh_f32bits(c) && r == g_h_ret,
        "re-exported import: the export wrapper has the import's own signature and passes instance, arguments and result through unchanged");
    CANARY("reexport"); }
void h_callhost0twice(void) { ND(U32, base); U32 r; ASSUME(base <= 2); setup(base);
    r = MODNAME_callhost0twice(&inst);
    OBL(g_h0_calls == 2 && r == g_h0_ret[0] - g_h0_ret[1], "import call: two calls in sequence, results kept in evaluation order");
    CANARY("callhost0twice"); }
void h_callhostv(void) { ND(F64, d); ND(U32, i); ND(U32, base); U32 r; ASSUME(base <= 2); setup(base);
    r = MODNAME_callhostv(&inst, d, i);
    OBL(g_hv_calls == 1 && g_hv_dbits == vh_f64bits(d) && g_hv_i == i, "import call without result: arguments in order");
    OBL(r == i, "import call without result: the operand below the arguments survives and nothing is pushed");
    CANARY("callhostv"); }
void h_callmix(void) { ND(U32, a); ND(U64, b); ND(F32, c); ND(F64, d); ND(U32, e); ND(U32, base); U64 r; ASSUME(base <= 2); setup(base);
    r = MODNAME_callmix(&inst, a, b, c, d, e);
    OBL(r == spec_mix(a, b, c, d, e), "direct call: five arguments of mixed types reach the designated function in declaration order; its result is delivered");
    CANARY("callmix"); }
void h_callmixperm(void) { ND(U32, a); ND(U64, b); ND(F32, c); ND(F64, d); ND(U32, e); ND(U32, base); U64 r; ASSUME(base <= 2); setup(base);
    r = MODNAME_callmixperm(&inst, a, b, c, d, e);
    OBL(r == 5 + spec_mix(e, b, c, d, a), "direct call under another operand: arguments taken from the top of the stack in order, result lands above the operand below");
    CANARY("callmixperm"); }
void h_tri(void) { ND(U32, n); ND(U32, base); U32 r; ASSUME(base <= 2 && n <= 4); setup(base);
    r = MODNAME_tri(&inst, n);
    OBL(r == (n == 0 ? 0u : n == 1 ? 1u : n == 2 ? 3u : n == 3 ? 6u : 10u), "recursion: tri(n) = n + tri(n-1)");
    CANARY("tri"); }
void h_evenodd(void) { ND(U32, n); ND(U32, base); U32 r1, r2; ASSUME(base <= 2 && n <= 4); setup(base);
    r1 = MODNAME_iseven(&inst, n); r2 = MODNAME_isodd(&inst, n);
    OBL(r1 == ((n & 1) == 0) && r2 == (n & 1), "mutual recursion: even/odd");
    CANARY("evenodd"); }
void h_ind(void) { ND(U32, a); ND(U32, b); ND(U32, idx); ND(U32, base); U32 r; ASSUME(base <= 2); setup(base);
    ASSUME(idx == base || idx == base + 1 || idx == 5 || idx == 6);            /* the initialised range */
    r = MODNAME_ind(&inst, a, b, idx);
    OBL(r == (idx == base ? a - b : idx == base + 1 ? a + b : idx == 5 ? (a ^ b) : a - b),
        "call_indirect: the table entry selected by the TOP operand is called with the arguments below it in order; element segments put the listed functions at offset+i");
    CANARY("ind"); }
void h_indbelow(void) { ND(U32, a); ND(U32, b); ND(U32, base); ND(U64, below); U64 r; ASSUME(base <= 2); setup(base);
    r = MODNAME_indbelow(&inst, a, b, base + 1, below);
    OBL(r == (below ^ (U64)(U32)(a + b)), "call_indirect under another operand: result lands above it");
    CANARY("indbelow"); }
void h_ind0(void) { ND(U32, below); ND(U32, base); U32 r; ASSUME(base <= 2); setup(base);
    r = MODNAME_ind0(&inst, below, 7);
    OBL(r == (below ^ 1111u), "call_indirect of a zero-parameter function: its result replaces the table index (slot h-1) and the operand below survives");
    CANARY("ind0"); }
void h_ind_import(void) { ND(U32, below); ND(U32, base); U32 r; ASSUME(base <= 2); setup(base);
    r = MODNAME_ind0(&inst, below, 4);
    OBL(g_h0_calls == 1 && g_h_inst == (void*)&inst && r == (below ^ g_h0_ret[0]), "call_indirect to an IMPORTED function placed in the table by an element segment: the host function is called with the instance, its result delivered");
    CANARY("ind_import"); }
void h_newchild(void) { ND(U32, a); ND(U32, b); ND(U32, base); MODNAMEInstance* child; U32 r; ASSUME(base <= 2); setup(base);
    child = MODNAMENewChild(&inst);
    ASSUME(child != 0);
    r = MODNAME_ind(child, a, b, base);
    OBL(r == a - b, "child instance (thread): its table is initialised from the element segments - offsets read from ITS imported globals, which are bound first - and dispatches like the parent");
    CANARY("newchild"); }
void h_elem(void) { ND(U32, base); ND(U32, k); ASSUME(base <= 2 && k < 8); setup(base);
    OBL(TAB.data[base] != (wasmFunc)sentinel && TAB.data[base + 1] != (wasmFunc)sentinel && TAB.data[5] != (wasmFunc)sentinel && TAB.data[6] != (wasmFunc)sentinel && TAB.data[7] != (wasmFunc)sentinel && TAB.data[4] != (wasmFunc)sentinel,
        "element segments: every listed slot of the designated (defined or imported) table is initialised, with a constant or an imported-global offset");
    OBL(k == base || k == base + 1 || k == 5 || k == 6 || k == 7 || k == 4 || TAB.data[k] == (wasmFunc)sentinel, "element segments: no other table slot is written");
    OBL(TAB.data[base] == TAB.data[6], "element segments: the same function index denotes the same function in every segment");
    CANARY("elem"); }
'''

HARNESS_DEFINED = HARNESS


def make_jobs(ctx):
    jobs = []
    for tag, defined, opts in (("imp", False, ()), ("def", True, ()), ("imp-p", False, ("-p",)), ("def-p", True, ("-p",)), ("imp-m", False, ("-m",))):
        modname = "c04%s" % tag.replace("-", "")
        m = build_module(defined)
        wasm_bytes = m.encode()
        d, r = ctx.translate(wasm_bytes, modname, opts)
        if d is None:
            from ..core import rejected_job
            jobs.append(rejected_job("G.%s.translate" % tag, modname, r, wasm_bytes.hex()))
            continue
        text = HARNESS.replace("MODNAME", modname)
        if "-m" in opts:      # several modules in one program: imported functions are referred to as <module>_<import>, in calls AND in element segments
            for h in ("host3", "host0", "hostv"):        # the harness DEFINES the host functions under the prefixed names (no renaming macro: the generated code must use them itself)
                text = text.replace(" env__%s(void* inst" % h, " %s_env__%s(void* inst" % (modname, h))
        if defined:
            # a defined table is allocated by the instance itself: sentinel filling happens after instantiation is impossible -> compare against NULL instead
            text = text.replace("#include \"vh.h\"", "#define DEFINED_TABLE 1\n#include \"vh.h\"")
            text = text.replace("(wasmFunc)sentinel", "(wasmFunc)0")
        hp = os.path.join(d, "gh_%s.c" % modname)
        with open(hp, "w") as f:
            f.write(text)
        for h, fn, extra in (("h_callhost3", "call (import)", {}), ("h_callhost0twice", "call (import)", {}), ("h_callhost3dup", "call (import, imported twice)", {}), ("h_reexport", "export wrapper of an import", {}), ("h_callhostv", "call (import)", {}),
                             ("h_callmix", "call (direct)", {}), ("h_callmixperm", "call (direct)", {}),
                             ("h_tri", "call (recursive)", dict(bounded="recursion depth <= 5 (n <= 4)")),
                             ("h_evenodd", "call (mutually recursive)", dict(bounded="recursion depth <= 5 (n <= 4)")),
                             ("h_ind", "call_indirect", {}), ("h_indbelow", "call_indirect", {}), ("h_ind0", "call_indirect", {}), ("h_newchild", "NewChild + call_indirect", {}), ("h_ind_import", "call_indirect (imported function in the table)", {}), ("h_elem", "element segments / InitTables", {})):
            jobs.append(Job("G.%s.%s" % (tag, h[2:]), hp, entry=h, includes=[d, os.path.join(ctx.repo, "w2c2")],
                            flags=["--unwind", "10", "--unwinding-assertions"], funcs=["generated:%s %s" % (modname, fn)],
                            replay=lambda c, j, p, v: native_replay_generic(c, j, p, v),
                            info=dict(layer="G", generated_c=os.path.join(d, modname + ".c"), table=("defined" if defined else "imported"), w2c2_options=" ".join(opts), module_hex=wasm_bytes.hex()), **extra))
    from ..eexpr import expr_jobs
    jobs += expr_jobs(ctx, ["call", "call_indirect"])
    # which C symbol an import is bound to: the mangling must keep different (module, name) pairs apart
    from ..elayer import ejob
    NS = ["array.c", "opcode.c", "instruction.c", "valuetype.c", "sha1.c", "export.c", "debug.c", "section.c"]
    jobs.append(ejob(ctx, "E.names_injective", "e_names.c", "h_injective", ["c.c:wasmCWriteStringEscaped"], defines=["NLEN=1", "ILEN=3"], flags=["--unwind", "20", "--unwinding-assertions"], native_src=NS,
                     bounded="two names of <= 3 bytes, every byte value"))
    for cls, nm in ((0, "E.names_injective_pair"), (1, "E.names_injective_pair.underscore_at_boundary")):
        jobs.append(ejob(ctx, nm, "e_names.c", "h_injective_pair", ["c.c:wasmCWriteStringEscaped", "c.c:wasmCWriteStringFunctionUse (module __ name)"], defines=["NLEN=1", "ILEN=2", "PAIR_CLASS=%d" % cls],
                         flags=["--unwind", "20", "--unwinding-assertions"], native_src=NS,
                         bounded="two (module, name) pairs of <= 2 bytes each, every byte value; class %s" % ("module ends in '_' or name starts with '_' or a part is empty" if cls else "no module ends in '_', no name starts with '_', no empty part")))
    return jobs


META = dict(
    level="proof",
    trusted_base=["CBMC 6.11 incl. its function-pointer removal for TF(table, index, type) calls; minisat",
                  "probe module family: one module with an imported table and one with a defined table (enumerated shapes), argument values symbolic"],
    assumptions=["E/S emitter contracts: array.c's growth step enters through the contract stub of harness/e_expr.c (discharged on the real array.c by job A.ensure_capacity.4, realloc/calloc being CBMC's library models); stack heights <= 2^24, label stacks <= 2^16; the string builder is the ghost recorder (its real implementation is under contract in C10); operand-stack entries hold valid value types (validated module)", "recursion depth <= 5", "table of 8 slots; segments at offsets {imported global in 0..2, constant 5}"],
    explanation="For all argument values: imported calls receive the instance and the arguments in order, direct calls with five mixed-type parameters, calls under other operands, "
                "self and mutual recursion, call_indirect through imported and defined tables on every initialised index, element segment placement with frame.",
)

CLAIM = dict(
    category="proof",
    text="Per-probe contracts on w2c2-generated C for all argument values: host imports get (instance, args in order) and their result is delivered; a distinguishing "
         "5-parameter mixed-type callee detects any argument permutation; recursion and mutual recursion (bounded depth); call_indirect dispatch on the top operand through "
         "imported/defined tables; element segments with constant and imported-global offsets place exactly the listed functions and touch no other slot.",
    note="Program shapes are two enumerated probe modules; recursion depth bounded; unbounded in argument values. Both probe modules are verified from the default and the -p output. wasmCWriteCallExpr / wasmCWriteCallIndirectExpr are under an E-layer contract at every stack height for 0-3 parameters, with and without result.",
    technique="CBMC contracts on w2c2-generated C with recording host-function stubs (call-site contracts)",
)
