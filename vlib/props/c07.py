"""C07 - every constant keeps its exact bit pattern through the generated C text."""
import os, struct, subprocess
from .. import wasm as W
from ..core import Job, VERIF, native_replay_generic, Undecided
from ..elayer import ejob

H = os.path.join(VERIF, "harness")


def f32_reps(seed):
    import random
    r = random.Random(seed)
    v = [0x00000000, 0x80000000, 0x7F800000, 0xFF800000, 0x7FC00000, 0xFFC00000, 0x7FA00000, 0x7F800001, 0xFF800001, 0x7FFFFFFF, 0xFFFFFFFF,
         0x7F900000, 0x7FC00001, 0x7F801000, 0x00000001, 0x80000001, 0x007FFFFF, 0x00800000, 0x7F7FFFFF, 0xFF7FFFFF, 0x3F800000, 0xBF800000,
         0x3DCCCCCD, 0x40490FDB, 0x447FFFFF, 0x4B800001, 0x4E6E6B28, 0x3F7FFFFF, 0x3F800001, 0x34000000, 0x33800000, 0x0DA24260, 0x7149F2CA,
         0x4F000000, 0xCF000000, 0x5F000000, 0x4F800000]
    v += [r.getrandbits(32) for _ in range(24)]
    return v


def f64_reps(seed):
    import random
    r = random.Random(seed + 1)
    v = [0x0, 0x8000000000000000, 0x7FF0000000000000, 0xFFF0000000000000, 0x7FF8000000000000, 0xFFF8000000000000, 0x7FF4000000000000,
         0x7FF0000000000001, 0xFFF0000000000001, 0x7FFFFFFFFFFFFFFF, 0x7FF0000000800000, 0x7FF0000100000000, 0x7FF8000000000001, 0x7FF0000000400000,
         0xFFF0000080000000, 0x1, 0x8000000000000001, 0x000FFFFFFFFFFFFF, 0x0010000000000000, 0x7FEFFFFFFFFFFFFF, 0xFFEFFFFFFFFFFFFF,
         0x3FF0000000000000, 0x3FB999999999999A, 0x400921FB54442D18, 0x3FEFFFFFFFFFFFFF, 0x3FF0000000000001, 0x4340000000000001, 0x41DFFFFFFFC00000,
         0xC1E0000000000000, 0x43E0000000000000, 0x43F0000000000000, 0x3E7AD7F29ABCAF48, 0x7E37E43C8800759C]
    v += [r.getrandbits(64) for _ in range(24)]
    return v


def i32_reps(seed):
    import random
    r = random.Random(seed + 2)
    return [0, 1, 0xFFFFFFFF, 0x80000000, 0x7FFFFFFF, 0x80000001, 63, 64, 0xFFFFFFC0, 0xFFFFFFBF, 0x12345678] + [r.getrandbits(32) for _ in range(8)]


def i64_reps(seed):
    import random
    r = random.Random(seed + 3)
    return [0, 1, (1 << 64) - 1, 1 << 63, (1 << 63) - 1, (1 << 63) + 1, 1 << 32, (1 << 32) - 1, 0xFFFFFFFF00000000, 0x123456789ABCDEF0] + [r.getrandbits(64) for _ in range(8)]


def g_probes(ctx):
    from ..gprobe import ProbeModule, Probe
    pm = ProbeModule("c07const", memory=(1, 1))
    PRE = ["g_libm_calls = 0;"]
    inits = []   # (global index, type, bits)
    n = 0
    for t, reps, ins, fb in ((W.F32, f32_reps(ctx.seed), "f32.const", "vh_f32bits(r)"), (W.F64, f64_reps(ctx.seed), "f64.const", "vh_f64bits(r)"),
                             (W.I32, i32_reps(ctx.seed), "i32.const", "(U64)r"), (W.I64, i64_reps(ctx.seed), "i64.const", "(U64)r")):
        tn = W.TNAME[t]
        for bits in reps:
            n += 1
            lit = {W.F32: "0x%08Xu", W.F64: "0x%016Xull", W.I32: "0x%08Xu", W.I64: "0x%016Xull"}[t] % bits
            # (a) in a function body
            pm.add(Probe("%sbody%d" % (tn, n), [], t, W.ins(ins, bits), pre_stmts=PRE, post=[("%s == %s" % (fb, lit), "the %s immediate 0x%X in a function body denotes exactly this bit pattern after translation to C text" % (tn, bits))],
                         wasm_desc="(%s 0x%X)" % (ins, bits)))
            # (b) as the initialiser of a global (read back through global.get)
            gi = pm.m.global_(t, False, W.const_expr(t, bits))
            inits.append((gi, t, bits))
            pm.add(Probe("%sglob%d" % (tn, n), [], t, W.ins("global.get", gi), pre_stmts=PRE + ["c07constInstantiate(&inst, 0);"],
                         post=[("%s == %s" % (fb, lit), "the %s immediate 0x%X as a global initialiser denotes exactly this bit pattern" % (tn, bits))],
                         wasm_desc="(global %s (%s 0x%X))" % (tn, ins, bits)))
    # (c) i32 constants as data-segment offsets
    for k, off in enumerate([0, 1, 65535, 4096]):
        pm.m.data(W.const_expr(W.I32, off), bytes([0xA0 + k]))
    pm.add(Probe("segoffsets", [], W.I32, W.ins("i32.const", 0), spec="0u", pre_stmts=PRE + ["c07constInstantiate(&inst, 0);"],
                 post=[("inst.m0->data[0] == 0xA0 && inst.m0->data[1] == 0xA1 && inst.m0->data[65535] == 0xA2 && inst.m0->data[4096] == 0xA3",
                        "i32 constants used as data-segment offsets place the segments at exactly these addresses")],
                 wasm_desc="(data (i32.const k) ...)", timeout=600))
    return pm.jobs(ctx, ["wasm_int.h", "libm_markers.h"], "G")


def decimal_roundtrip(ctx, job):
    """Bounded stand-in (thorough tier): the decimal path %.9g / %.17g -> C lexer -> value, which no contract reaches.
    Native exhaustive loop over all 2^32 f32 patterns (the literal is a double constant assigned to a float: strtod then (float));
    f64: binade edges and seeded random patterns with strtod."""
    src = os.path.join(VERIF, "tools", "decimal_roundtrip.c")
    exe = ctx.path("dec", "rt")
    r = subprocess.run(["gcc", "-O2", "-fopenmp", src, "-I", os.path.join(ctx.repo, "w2c2"), os.path.join(ctx.repo, "w2c2", "stringbuilder.c"), "-o", exe, "-lm"], capture_output=True)
    if r.returncode != 0:
        raise Undecided("cannot build decimal_roundtrip: " + r.stderr.decode()[-500:])
    quick = ctx.tier != "thorough"
    r = subprocess.run([exe, "quick" if quick else "full", str(ctx.seed)], capture_output=True, timeout=3000)
    out = r.stdout.decode()
    ok = r.returncode == 0
    return [("decimal literal path (real stringBuilderAppendF32/F64 -> strtod -> width conversion) reproduces the bits: %s" % out.strip().replace("\n", "; ")[:300], ok, out[-400:])]


def make_jobs(ctx):
    jobs = []
    inc = [os.path.join(ctx.repo, "w2c2")]
    rp = lambda c, j, p, v: native_replay_generic(c, j, p, v)
    for h, fn in (("h_u32", "leb128ReadU32"), ("h_i32", "leb128ReadI32"), ("h_u64", "leb128ReadU64"), ("h_i64", "leb128ReadI64")):
        jobs.append(Job("RD." + fn, os.path.join(H, "leb.c"), entry=h, includes=inc, funcs=["leb128.h:" + fn], replay=rp,
                        flags=["--unwind", "12", "--unwinding-assertions", "--no-signed-overflow-check", "--no-undefined-shift-check"],
                        info=dict(layer="RD", note="loops bounded by the constants 5 / 10 of the code: complete. Signed-shift checks are off here: "
                                  "leb128ReadI64 evaluates (I64)1 << 63 for 9-byte negative encodings (translator-side UB outside the listed properties, DESIGN.md section 5)")))
    for h, fn in (("h_bufferReadF32", "bufferReadF32"), ("h_bufferReadF64", "bufferReadF64")):
        jobs.append(Job("RD." + fn, os.path.join(H, "c19_swap.c"), entry=h, includes=inc, funcs=["buffer.h:" + fn], replay=rp, info=dict(layer="RD")))
    for h in ("h_lit_i32", "h_lit_i64", "h_lit_f32", "h_lit_f64"):
        jobs.append(ejob(ctx, "E." + h[2:], "c07_literal.c", h, ["c.c:wasmCWriteLiteral"], flags=["--unwind", "24", "--unwinding-assertions"], info=dict(layer="E")))
    jobs += g_probes(ctx)
    j = Job("B.decimal_roundtrip", src=None, solver="static", funcs=["stringbuilder.c:stringBuilderAppendF32", "stringbuilder.c:stringBuilderAppendF64", "stringbuilder.c:stringBuilderAppendI32/U32/I64/U64 (decimal text = value)"],
            bounded=("native sweep: f32 sampled 2^22 patterns + all boundary classes (quick) / all 2^32 patterns (thorough); f64 binade edges + 10^6 (quick) / 10^8 (thorough) seeded patterns; integers: all powers of ten +-1, every a*10^9+b / a*10^18+b with small and nine-digit a, b, the type limits, 10^6 (quick) / 10^8 (thorough) seeded values, each text parsed back with strtoull/strtoll and checked for leading zeros"),
            info=dict(layer="bounded native stand-in", static_cmd="tools/decimal_roundtrip.c with the real stringbuilder.c"))
    j.static_fn = decimal_roundtrip
    jobs.append(j)
    return jobs


META = dict(
    level="proof",
    trusted_base=["CBMC 6.11 incl. its exact parsing of decimal floating literals in the generated C (layer G); minisat",
                  "env/sb_recorder.h (ghost string builder)", "the C compiler parses decimal floating literals with correct rounding like strtod (bounded native stand-in only)"],
    assumptions=["decimal text of finite non-special floats: proved only on representatives (layer G) and by the native stand-in, not for all values"],
    explanation="RD: LEB128 decoders for every value and padded length, float immediates. E: wasmCWriteLiteral classification for all 2^32/2^64 patterns. "
                "G: representative constants of every class through function bodies, global initialisers and segment offsets, CBMC parsing the emitted literal. "
                "B: native decimal round trip through the real stringbuilder.c.",
)

CLAIM = dict(
    category="proof",
    text="Unbounded proofs for the decoders (decode(encode_L(v)) = (v, L)) and for the literal classification of every i32/i64/f32/f64 bit pattern "
         "(every NaN through its exact bits, infinities, negative zero, integers as signed decimal + unsigned suffix); per-constant proofs on ~190 class "
         "representatives + seeded random patterns in three syntactic positions with CBMC parsing the generated text. The %.9g/%.17g decimal path is outside "
         "the verifier: bounded native stand-in, labelled as such.",
    note="Assumed: compilers parse decimal literals with correct rounding; CBMC's literal parser. Decimal round trip for all values is not proved (bounded native sweep); likewise that the decimal text written for i32/i64 literals denotes the value (render-and-parse-back exceeded every installed solver): bounded native check over powers of ten, chunk boundaries, limits and seeded values.",
    technique="CBMC contracts on decoders and on wasmCWriteLiteral (ghost string recorder) + per-constant contracts on generated C; native decimal sweep as bounded stand-in",
)
