"""C10 - the translator is total and memory-safe on valid modules and on truncated files."""
import os, subprocess, random
from .. import wasm as W
from ..core import Job, Undecided, VERIF, native_replay_generic
from ..elayer import ejob
from . import c03, c04, c06, c08

H = os.path.join(VERIF, "harness")


def build_asan(ctx):
    bdir = os.path.dirname(ctx.path("w2c2asan", "x"))
    exe = os.path.join(bdir, "w2c2")
    if os.path.exists(exe):
        return exe
    srcdir = os.path.join(ctx.repo, "w2c2")
    srcs = [os.path.join(srcdir, f) for f in sorted(os.listdir(srcdir)) if f.endswith(".c") and f != "test.c" and not f.endswith("_test.c")]
    procs = []
    objs = []
    for s in srcs:
        o = os.path.join(bdir, os.path.basename(s)[:-2] + ".o")
        objs.append(o)
        procs.append(subprocess.Popen(["gcc", "-std=gnu90", "-O1", "-g", "-w", "-fsanitize=address,undefined", "-fno-sanitize-recover=undefined", "-fno-omit-frame-pointer"] + ctx.W2C2_DEFS + ["-c", s, "-o", o],
                                      stdout=subprocess.PIPE, stderr=subprocess.STDOUT))
    for p in procs:
        out, _ = p.communicate()
        if p.returncode != 0:
            raise Undecided("ASan build of w2c2 failed: " + out.decode(errors="replace")[-500:])
    r = subprocess.run(["gcc", "-fsanitize=address,undefined", "-o", exe] + objs + ["-lpthread", "-lm"], capture_output=True)
    if r.returncode != 0:
        raise Undecided("ASan link failed: " + r.stderr.decode()[-500:])
    return exe


def name_section(names):
    """function-name subsection: vec of (index, name)"""
    payload = W.uleb(len(names)) + b"".join(W.uleb(i) + W.name(n) for i, n in names)
    return b"\x01" + W.uleb(len(payload)) + payload


def corpus(ctx):
    mods = []
    pm = c03.build(ctx, "m", 6)
    mods.append(("controlflow", pm.m))
    mods.append(("calls_imported_table", c04.build_module(False)))
    mods.append(("calls_defined_table", c04.build_module(True)))
    mods.append(("instantiation_defmem", c06.build_module(False, True)))
    mods.append(("instantiation_impmem", c06.build_module(True, True)))
    # names: non-ASCII / punctuation / long export and import names; partial and duplicate debug names
    m = W.Module()
    m.import_func("envé", "café-☃ \"x\"\\", [W.I32], [W.I32])
    f1 = m.func([W.I32], [W.I32], W.ins("local.get", 0) + W.ins("call", 0), export="über.export$1")
    f2 = m.func([], [W.I32], W.ins("i32.const", 1), export="x" * 300)
    f3 = m.func([], [W.I32], W.ins("i32.const", 2), export="a-b c")
    m.names = name_section([(1, "dup"), (3, "dup")])             # function 2 has NO name, two functions share one
    mods.append(("names_nonascii_partial_duplicate", m))
    m2 = W.Module()
    for i in range(40):
        m2.func([W.I32], [W.I32], W.ins("local.get", 0) + W.ins("i32.const", i) + W.ins("i32.add"), locals_=[(3, W.I32), (2, W.I64)], export="f%d" % i)
    m2.names = name_section([(i, "fn%d" % i) for i in range(0, 40, 3)])
    mods.append(("many_functions_partial_names", m2))
    # a name section with every kind of subsection: module name (0), function names (1), local names (2), and an unknown id (9) - before and after the function names
    m3 = W.Module()
    m3.func([W.I32], [W.I32], W.ins("local.get", 0), export="id")
    m3.func([], [W.I32], W.ins("i32.const", 7))
    sub = lambda sid, payload: bytes([sid]) + W.uleb(len(payload)) + payload
    m3.names = sub(0, W.name("the module")) + name_section([(0, "identity"), (1, "seven")]) + \
        sub(2, W.uleb(1) + W.uleb(0) + W.uleb(1) + W.uleb(0) + W.name("param0")) + sub(9, b"\x01\x02\x03\x04\x05")
    mods.append(("name_section_all_subsections", m3))
    # no export section, no name section, no imports: every optional section absent
    m4 = W.Module()
    m4.func([], [], b"")
    mods.append(("bare_minimum_no_exports", m4))
    return mods


OPTSETS = [[], ["-p"], ["-m"], ["-g"], ["-g", "-p", "-m"], ["-f", "1", "-t", "2"], ["-g", "-t", "2", "-f", "1"], ["-g", "-t", "1", "-f", "3"], ["-d", "gnu-ld"], ["-c", "-f", "2"], ["-t", "64", "-f", "2"]]


def asan_matrix(ctx, job):
    exe = build_asan(ctx)
    facts = []
    # MALLOC_PERTURB_ is honoured by glibc only; under ASan the allocator is replaced, whose malloc_fill_byte does the same job: fresh heap memory is never zero
    env = dict(os.environ, ASAN_OPTIONS="detect_leaks=0:abort_on_error=0:max_malloc_fill_size=1048576:malloc_fill_byte=165", UBSAN_OPTIONS="print_stacktrace=0", MALLOC_PERTURB_="165")
    mods = corpus(ctx)
    quick = ctx.tier == "quick"
    for mname, m in mods:
        data = m.encode()
        for oi, opts in enumerate(OPTSETS if not quick else OPTSETS[:8] + OPTSETS[9:10]):
            dd = os.path.dirname(ctx.path("asan", "%s_%d" % (mname, oi), "x"))
            open(os.path.join(dd, "m.wasm"), "wb").write(data)
            r = subprocess.run([exe] + opts + [os.path.join(dd, "m.wasm"), os.path.join(dd, "m.c")], capture_output=True, cwd=dd, env=env, timeout=120)
            err = r.stderr.decode(errors="replace")
            bad = ("AddressSanitizer" in err) or ("runtime error" in err) or r.returncode < 0 or r.returncode >= 128
            facts.append(("valid module '%s' with options [%s]: exit status 0, no crash, no sanitizer report" % (mname, " ".join(opts)), r.returncode == 0 and not bad,
                          "rc=%d %s module_hex=%s" % (r.returncode, err[-400:], data.hex()[:400])))
    # truncation: every proper prefix of two modules, plain and with -g
    for mname, m in (mods[0], mods[5], mods[7]) if quick else mods:     # quick: control flow, partial names, every name subsection
        data = m.encode()
        for opts in ([], ["-g"]):
            badk = []
            step = 1
            for k in range(1, len(data), step):
                dd = os.path.dirname(ctx.path("asan", "trunc", "x"))
                open(os.path.join(dd, "t.wasm"), "wb").write(data[:k])
                r = subprocess.run([exe] + opts + [os.path.join(dd, "t.wasm"), os.path.join(dd, "t.c")], capture_output=True, cwd=dd, env=env, timeout=60)
                err = r.stderr.decode(errors="replace")
                if ("AddressSanitizer" in err) or ("runtime error" in err) or r.returncode < 0 or r.returncode >= 128:
                    badk.append((k, err[-200:]))
            facts.append(("every proper prefix (1..%d bytes) of module '%s' [%s]: diagnostic or success, never a memory error or crash" % (len(data) - 1, mname, " ".join(opts)), not badk,
                          "failing prefix lengths: %s" % [k for k, _ in badk][:12] + (" first: " + badk[0][1] if badk else "")))
    return facts


def make_jobs(ctx):
    jobs = []
    inc = [os.path.join(ctx.repo, "w2c2")]
    rp = lambda c, j, p, v: native_replay_generic(c, j, p, v)
    NOUB = ["--no-signed-overflow-check", "--no-undefined-shift-check"]
    # string builder / identifier escaping
    SBF = {"h_charhex": "stringBuilderAppendCharHex", "h_u32": "stringBuilderAppendU32", "h_i32": "stringBuilderAppendI32", "h_u64": "stringBuilderAppendU64",
           "h_i64": "stringBuilderAppendI64", "h_u32hex": "stringBuilderAppendU32Hex", "h_u64hex": "stringBuilderAppendU64Hex",
           "h_floats": "stringBuilderAppendF32/F64", "h_append_any": "stringBuilderAppendSized/AppendChar/EnsureCapacity"}
    for h, fn in SBF.items():
        jobs.append(Job("SB." + h[2:], os.path.join(H, "c10_sb.c"), entry=h, includes=inc + [H], funcs=["stringbuilder.c:" + fn], replay=rp,
                        flags=["--unwind", "40", "--unwinding-assertions"], solver=("z3" if h in ("h_u32", "h_i32", "h_u64", "h_i64", "h_append_any") else "sat"),
                        info=dict(layer="S", env="sprintf model: env/sprintf_model.h")))
    # reader on arbitrary bytes (memory safety = CBMC's own obligations), steered per section id
    n = 8 if ctx.tier == "quick" else 12
    # section readers whose arbitrary-bytes obligation is decided within the budget; type/import/global/export/element/code/data allocate arrays of a symbolic element count
    # and exhausted 10 GB / 5 minutes per run on both back ends: for those the truncation quantifier is covered by the LEB/name/byte-vector primitives (unbounded in position)
    # and by the sanitizer matrix (bounded), see DESIGN.md section 6
    readers = [("custom", "wasmReadCustomSection"), ("function", "wasmReadFunctionSection"), ("start", "wasmReadStartSection"), ("datacount", "wasmReadDataCountSection")]
    for nm, fn in readers:
        defs = ["NBYTES=%d" % n, "SECTION_FN=%s" % fn] + (["SECTION_PREP_FUNCTIONS"] if nm == "code" else [])
        jobs.append(ejob(ctx, "RD.arbitrary_bytes.%s" % nm, "c10_reader.c", "h_section", ["reader.c:" + fn], defines=defs, solver=os.environ.get("C10_SOLVER", "z3"),
                         flags=["--unwind", str(n + 4), "--unwinding-assertions", "--unwindset", "SHA1Update.0:70,SHA1Transform.0:90,SHA1Final.0:70"] + NOUB, malloc_may_fail=True,
                         timeout=(300 if ctx.tier == "quick" else 2000),
                         bounded="arbitrary byte strings of length <= %d handed to the section reader with any size within the buffer (all contents symbolic); allocation failure enabled" % n))
    jobs.append(ejob(ctx, "RD.name_bytes", "c10_reader.c", "h_name_bytes", ["reader.c:wasmReadName", "reader.c:wasmReadBytes"], defines=["NBYTES=%d" % n, "SECTION_FN=wasmReadStartSection"],
                     flags=["--unwind", str(n + 4), "--unwinding-assertions"] + NOUB, malloc_may_fail=True, bounded="arbitrary byte strings of length <= %d; allocation failure enabled" % n))
    for nlen in (1, 2, 3):
        jobs.append(ejob(ctx, "E.names_escape.len%d" % nlen, "e_names.c", "h_escape", ["c.c:wasmCWriteFileEscaped", "c.c:wasmCWriteStringEscaped"], defines=["NLEN=%d" % nlen],
                         flags=["--unwind", "12", "--unwinding-assertions"], native_src=["array.c", "opcode.c", "instruction.c", "valuetype.c", "sha1.c", "export.c", "debug.c", "section.c"],
                         bounded="names of %d bytes, every byte value symbolic (the escapers look at the current and the previous byte only)" % nlen))
    jobs.append(ejob(ctx, "RD.names_partial", "c10_reader.c", "h_names", ["reader.c:wasmFunctionNamesRemoveDuplicates"], flags=["--unwind", "8", "--unwinding-assertions"],
                     bounded="<= 3 functions, names <= 2 characters, any subset unnamed; qsort is an ENV model (insertion sort through the comparator)"))
    from . import c20
    # path handling (overlapping strcpy) is decided by the C20 harness; the same obligations are counted here because C10 demands memory safety of the whole run
    jobs.append(ejob(ctx, "M.output_names", "c20_files.c", "h_output_names", ["c.c:wasmCWriteModule"], defines=["H_NAMES", "HAS_LIBGEN=0"], flags=["--unwind", "20", "--unwinding-assertions"],
                     bounded="output paths <= 8 characters"))
    jobs.append(ejob(ctx, "M.chdir", "c20_files.c", "h_chdir", ["main.c:changeToOutputDirectory"], defines=["H_CHDIR", "HAS_LIBGEN=0"], flags=["--unwind", "20", "--unwinding-assertions"],
                     bounded="output paths <= 8 characters"))
    b = Job("B.asan_option_truncation_matrix", src=None, solver="static", funcs=["w2c2 binary built with ASan+UBSan: main.c, reader.c, c.c, ..."],
            bounded="9 corpus modules x 9-11 option sets; every truncation point of 3 (quick) / all (thorough) modules, with and without -g",
            info=dict(layer="bounded corroboration on the real binary under AddressSanitizer/UBSan (also the replay vehicle)"))
    b.static_fn = asan_matrix
    jobs.append(b)
    # totality on valid code that is unreachable: instructions are skipped without looking at the (possibly empty) operand stack
    from ..eexpr import expr_jobs
    jobs += expr_jobs(ctx, ["dispatch", "dead", "ignored"])
    return jobs


META = dict(
    level="model_checking",
    trusted_base=["CBMC 6.11 memory-safety properties (bounds, pointer validity, deallocated/dead objects, double free) under allocation failure; minisat",
                  "env/sprintf_model.h (C-standard output length of the conversions used), ENV qsort model", "AddressSanitizer / UBSan for the bounded runs of the real binary"],
    assumptions=["'terminates with exit status 0 on every valid module' is not a single contract: it is the conjunction of the per-function obligations of C01-C09 (emitters return true on the probe families) "
                 "and of the bounded option/truncation matrix on the real binary", "byte strings <= 12/16 bytes for the reader; deep nesting / thousands of functions are only in the bounded runs"],
    explanation="String builder and identifier escaping for every byte value; the whole reader (wasmModuleRead, every section reader) on arbitrary bounded byte strings with exact-size buffers and failing allocations; "
                "partial/duplicate function names; path handling; ASan/UBSan matrix over valid modules x options x every truncation point.",
)

CLAIM = dict(
    category="model_checking",
    text="Bounded-but-complete CBMC memory-safety checks of the real reader on arbitrary byte strings (every section reader steered separately, allocation failures on), of the string builder with a "
         "standard-conforming sprintf model for every argument value, of the name de-duplication with unnamed functions, and of the output path handling; plus an AddressSanitizer/UBSan run of the freshly "
         "built translator over a module corpus (non-ASCII names, partial name sections, many functions) x option sets x every truncation point.",
    note="Whole-program totality is not one contract; sizes bounded; the sanitizer matrix is corroboration and the replay vehicle, not proof.",
    technique="CBMC memory-safety obligations on reader/stringbuilder/path code with ENV models; sanitizer matrix on the real binary as bounded stand-in",
)
