"""C03 - structured control flow, operand stack and locals behave as specified."""
import random
from .. import wasm as W
from .. import cfgen
from ..gprobe import ProbeModule, Probe

I32, I64 = W.I32, W.I64
PARAMS = [I32, I32]
LOCALS = [I32, I64, I32, I32, I64, I64]
LOCAL_GROUPS = [(1, I32), (1, I64), (2, I32), (2, I64)]     # the binary declares locals in (count, type) groups


def harness_for(mod, name, has_trap):
    return """void h_%(n)s(void) {
  ND(U32, a0); ND(U32, a1); ND(U32, gi0); ND(U64, gi1); U64 g[2]; int trapped = 0; U64 want; U32 r;
  g[0] = gi0; g[1] = gi1; inst.g0 = gi0; inst.g1 = gi1; g_libm_calls = 0;
  want = ref_%(n)s(g, &trapped, a0, a1);
  g_spec_trap = trapped ? SPEC_TRAP_UNREACHABLE : SPEC_NOTRAP;
  r = %(m)s_%(n)s(&inst, a0, a1);
  OBL(g_spec_trap == SPEC_NOTRAP, "%(n)s: returned normally only if the specification does not trap");
  OBL(r == (U32)want, "%(n)s: the function result equals the reference semantics (every branch reaches its label and carries its value to its consumer)");
  OBL(inst.g0 == (U32)g[0] && inst.g1 == g[1], "%(n)s: the observable side effects (globals) equal the reference: unreachable code has no effect, live code is not skipped");
  CANARY("%(n)s returns");
}""" % dict(n=name, m=mod)


def build(ctx, modname, count_random, opts_tag=""):
    pm = ProbeModule(modname)
    pm.extra_text = []
    rnd = random.Random(ctx.seed * 7919 + 17)
    items = []
    for name, fn in cfgen.shapes():
        b = cfgen.Body(PARAMS, LOCALS, I32)
        fn(b)
        items.append((name.replace("_", ""), b, name))
    for i in range(count_random):
        b = cfgen.Body(PARAMS, LOCALS, I32)
        cfgen.random_body(rnd, b)
        b.local_get(2); b.local_get(4); b.binop("i32.xor"); b.local_get(3); b.wrap(); b.binop("i32.add")
        items.append(("rnd%d" % i, b, "random structured body #%d (seed %d)" % (i, ctx.seed)))
    for name, b, desc in items:
        code = b.finish()
        pm.extra_text.append(cfgen.reference_c(name, b, 2))
        p = Probe(name, PARAMS, I32, code, locals_=LOCAL_GROUPS, wasm_desc="; ".join(b.desc)[:1500],
                  flags=["--unwind", "7", "--unwinding-assertions"],
                  bounded=("loops run at most (a & 3) + 1 iterations by construction; complete unwinding asserted" if any(x == "loop" for x in b.desc) else None),
                  trap=("unreachable" in " ".join(b.desc) and "x" or None))
        p.harness_override = harness_for(modname, name, False)
        p.trap = None
        pm.add(p)
    return pm


from ..eexpr import expr_jobs, block_jobs

def make_jobs(ctx):
    n = 60 if ctx.tier == "quick" else 600
    from ..core import Undecided, undecided_job
    jobs = []
    try:
        pm = build(ctx, "c03cf", n)
        jobs = pm.jobs(ctx, ["wasm_int.h", "libm_markers.h"], "G")
        for j in jobs:
            j.min_canaries = 1
        if ctx.tier == "thorough":
            for tag, opts in (("Gp", ["-p"]), ("Gm", ["-m"])):
                pm2 = build(ctx, "c03cf" + tag, 40)
                jobs += pm2.jobs(ctx, ["wasm_int.h", "libm_markers.h"], tag, opts=opts)
    except Undecided as e:      # the translator rejected or crashed on the probe module: the G group is undecided, the E/S contracts still run
        jobs = [undecided_job("G.translate", str(e), ["w2c2 binary on the control-flow probe module"])]
    jobs += expr_jobs(ctx, ["select", "local_get", "local_get_invalid", "local_assign", "const", "ignored", "br", "br_if", "dispatch", "dead", "function_return"])
    jobs += block_jobs(ctx)
    return jobs


META = dict(
    level="proof",
    trusted_base=["CBMC 6.11, minisat", "vlib/cfgen.py: the reference C function is produced from the same construction as the wasm bytes by a deliberately naive scheme "
                  "(operand array indexed by static height, structured if/else, 'copy carried value; goto label' for branches, nothing for dead code) - independent of w2c2's typed slot naming",
                  "the enumerated family of bodies + the paper composition argument (DESIGN.md 2.1) stand for 'all valid function bodies'"],
    assumptions=["E/S emitter contracts: array.c's growth step enters through the contract stub of harness/e_expr.c (discharged on the real array.c by job A.ensure_capacity.4, realloc/calloc being CBMC's library models); stack heights <= 2^24, label stacks <= 2^16; the string builder is the ghost recorder (its real implementation is under contract in C10); operand-stack entries hold valid value types (validated module)", "S jobs (block/loop/if): the enclosed code enters through the induction hypothesis c_inner of harness/e_block.c (returns at its end/else, label stack balanced, entries below the label height untouched, dead code stays dead); the induction over the nesting structure itself is on paper", "program shapes: 16 named shapes taken from the property text + seeded random structured bodies (60 quick / 600 thorough), nesting depth <= 3",
                 "loops iterate at most 4 times (input-dependent, unwinding assertions discharged)"],
    explanation="For each generated body CBMC proves, for all 2^64 argument pairs and all initial global values, that the C function generated by the freshly built w2c2 "
                "returns the reference result, traps exactly when the reference reaches unreachable, and leaves the same global state.",
)

CLAIM = dict(
    category="proof",
    text="Per-program equivalence proofs (all inputs, all initial globals) between the w2c2-generated C and an independently generated reference for a family "
         "of structured bodies covering every construct named by the property: typed blocks with values carried past extra operands, nested br/br_if at depths 0-2, br_table "
         "with out-of-range index, loops with back edges and exits from nested blocks, if with/without else and with then-branches ending in br/return, dead code with nested "
         "blocks, return, unreachable, select/drop/nop, zero-initialised locals of mixed types, tee/overwrite of parameters.",
    note="Bounded over programs (enumerated + seeded random family) and loop iterations (<= 4); unbounded over inputs. Since round 2 the emitters themselves are under contract at EVERY operand-stack height and label-stack length (select, local.get/set/tee incl. invalid index and dead code, const, br, br_if) and block/loop/if/if-else are verified modularly in the enclosed code (the recursive call is replaced by the induction hypothesis); br_table, return, drop, unreachable and the dispatch loop rest on the enumerated shapes.",
    technique="CBMC equivalence contracts on w2c2-generated C against generated reference functions (translation validation per program, all inputs) + contracts on the emitters of c.c with symbolic stack height (ghost string builder, induction hypothesis for nested code via --replace-call-with-contract)",
)
