"""C01 - integer instruction semantics and integer traps survive translation."""
from .. import wasm as W
from ..gprobe import ProbeModule, operator_contexts
from ..rlayer import ROp, jobs as rjobs

I32, I64 = W.I32, W.I64

# (wasm op, param types, result type, spec function, trap function, needs SMT)
BIN32 = ["add", "sub", "mul", "and", "or", "xor", "shl", "shr_s", "shr_u", "rotl", "rotr"]
CMP = ["eq", "ne", "lt_s", "lt_u", "gt_s", "gt_u", "le_s", "le_u", "ge_s", "ge_u"]


def int_ops():
    ops = []
    for w, t in (("i32", I32), ("i64", I64)):
        n = "32" if t == I32 else "64"
        for b in BIN32:
            ops.append(("%s.%s" % (w, b), [t, t], t, "spec_%s_%s" % (w, b), None, "smt" if b == "mul" else "sat"))
        for b in ("div_s", "div_u", "rem_s", "rem_u"):
            trapfn = {"div_s": "spec_div_s_trap", "div_u": "spec_divrem_u_trap", "rem_s": "spec_rem_s_trap",
                      "rem_u": "spec_divrem_u_trap"}[b] + n
            ops.append(("%s.%s" % (w, b), [t, t], t, "spec_%s_%s" % (w, b), trapfn, "smt"))
        for c in CMP:
            ops.append(("%s.%s" % (w, c), [t, t], I32, "spec_%s_%s" % (w, c), None, "sat"))
        ops.append(("%s.eqz" % w, [t], I32, "spec_%s_eqz" % w, None, "sat"))
        for u in ("clz", "ctz", "popcnt"):
            ops.append(("%s.%s" % (w, u), [t], t, "spec_%s_%s" % (w, u), None, "sat"))
    ops += [
        ("i32.extend8_s", [I32], I32, "spec_i32_extend8_s", None, "sat"),
        ("i32.extend16_s", [I32], I32, "spec_i32_extend16_s", None, "sat"),
        ("i64.extend8_s", [I64], I64, "spec_i64_extend8_s", None, "sat"),
        ("i64.extend16_s", [I64], I64, "spec_i64_extend16_s", None, "sat"),
        ("i64.extend32_s", [I64], I64, "spec_i64_extend32_s", None, "sat"),
        ("i32.wrap_i64", [I64], I32, "spec_i32_wrap_i64", None, "sat"),
        ("i64.extend_i32_s", [I32], I64, "spec_i64_extend_i32_s", None, "sat"),
        ("i64.extend_i32_u", [I32], I64, "spec_i64_extend_i32_u", None, "sat"),
    ]
    return ops


def smt(ctx):
    return "z3"


def r_ops():
    ops = []
    for n, T in (("32", "U32"), ("64", "U64")):
        w = "i" + n
        ops += [
            ROp("I%s_DIV_S" % n, "I%s_DIV_S(a0, a1)" % n, T, [T, T], "spec_%s_div_s(a0, a1)" % w, "spec_div_s_trap%s(a0, a1)" % n, "z3"),
            ROp("I%s_REM_S" % n, "I%s_REM_S(a0, a1)" % n, T, [T, T], "spec_%s_rem_s(a0, a1)" % w, "spec_rem_s_trap%s(a0, a1)" % n, "z3"),
            ROp("DIV_U_%s" % n, "DIV_U(a0, a1)", T, [T, T], "spec_%s_div_u(a0, a1)" % w, "spec_divrem_u_trap%s(a0, a1)" % n, "z3"),
            ROp("REM_U_%s" % n, "REM_U(a0, a1)", T, [T, T], "spec_%s_rem_u(a0, a1)" % w, "spec_divrem_u_trap%s(a0, a1)" % n, "z3"),
            ROp("I%s_ROTL" % n, "I%s_ROTL(a0, a1)" % n, T, [T, T], "spec_%s_rotl(a0, a1)" % w),
            ROp("I%s_ROTR" % n, "I%s_ROTR(a0, a1)" % n, T, [T, T], "spec_%s_rotr(a0, a1)" % w),
            ROp("I%s_CLZ" % n, "I%s_CLZ(a0)" % n, T, [T], "spec_%s_clz(a0)" % w),
            ROp("I%s_CTZ" % n, "I%s_CTZ(a0)" % n, T, [T], "spec_%s_ctz(a0)" % w),
            ROp("I%s_POPCNT" % n, "I%s_POPCNT(a0)" % n, T, [T], "spec_%s_popcnt(a0)" % w),
        ]
    return ops


from ..eexpr import expr_jobs

def make_jobs(ctx):
    jobs = []
    # ---- layer R: both variants of the header
    ops = r_ops()
    jobs += rjobs(ctx, ops, ["wasm_int.h"], "R.builtin", variant="plain", ub_checks=True)
    bitops = [o for o in ops if any(k in o.name for k in ("CLZ", "CTZ", "POPCNT"))]
    jobs += rjobs(ctx, bitops, ["wasm_int.h"], "R.fallback", variant="fallback",
                  defines=["W2C2_VERIF_HAS_BUILTIN(x)=0"], ub_checks=True)
    # ---- layer G: one probe per opcode x 3 stack contexts, translated by the freshly built w2c2
    pm = ProbeModule("c01int")
    for (op, pt, rt, spec, trap, solver) in int_ops():
        base = op.replace(".", "").replace("_", "")
        for p in operator_contexts(base, op, pt, rt, spec, trap, solver=("z3" if solver == "smt" else "sat"),
                                   gmap=pm.g, wasm_name=op):
            pm.add(p)
    jobs += pm.jobs(ctx, ["wasm_int.h", "libm_markers.h"], "G")
    if ctx.tier == "thorough":
        for tag, opts in (("Gp", ["-p"]), ("Gm", ["-m"]), ("Gf1", ["-f", "1"])):
            pm2 = ProbeModule("c01int" + tag)
            for (op, pt, rt, spec, trap, solver) in int_ops():
                base = op.replace(".", "").replace("_", "")
                for p in operator_contexts(base, op, pt, rt, spec, trap, solver=("z3" if solver == "smt" else "sat"),
                                           gmap=pm2.g, wasm_name=op, contexts=(1,)):
                    pm2.add(p)
            if tag == "Gf1":
                continue  # multi-file output is exercised by C09
            jobs += pm2.jobs(ctx, ["wasm_int.h", "libm_markers.h"], tag, opts=opts)
    jobs += expr_jobs(ctx, ["unary", "prefix", "infix", "infix_assign", "signed_infix", "shl", "shr_u", "shr_s"])
    return jobs


META = dict(
    level="proof",
    trusted_base=[
        "CBMC 6.11 C front end, goto-instrument --dfcc contract instrumentation, bit-vector encodings; minisat; z3 4.8.12",
        "spec/wasm_int.h is a faithful transcription of WebAssembly 1.0 section 4.3.2 (reviewed by hand)",
        "solver's bvudiv/bvurem (used by the spec on magnitudes) = mathematical truncating division",
        "paper composition argument of DESIGN.md 2.1: per-instruction contracts + slot discipline give the property for all programs",
    ],
    assumptions=["E/S emitter contracts: array.c's growth step enters through the contract stub of harness/e_expr.c (discharged on the real array.c by job A.ensure_capacity.4, realloc/calloc being CBMC's library models); stack heights <= 2^24, label stacks <= 2^16; the string builder is the ghost recorder (its real implementation is under contract in C10); operand-stack entries hold valid value types (validated module)", 
        "C compilers translate well-defined C correctly",
        "program shapes: one probe per integer opcode in 3 stack contexts (enumerated), all operand values symbolic",
    ],
    explanation="R: dfcc-enforced contracts on wrappers of DIV_S/REM_S/DIV_U/REM_U/ROTL/ROTR/CLZ/CTZ/POPCNT of the real "
                "w2c2_base.h (builtin and Hacker's-Delight variants). G: every integer opcode translated by the w2c2 built "
                "from the working tree, the generated C function verified against the spec for all 2^32/2^64 operand values.",
)

CLAIM = dict(
    category="proof",
    text="Every obligation is a CBMC proof for all 2^32/2^64 operand values: dfcc-enforced contracts on the integer macros of the "
         "real w2c2_base.h (both header variants) and contracts on the C functions that the freshly built w2c2 generates for every "
         "integer opcode in three stack contexts. Unbounded in values; program shapes are the enumerated probe family plus the "
         "paper composition argument.",
    note="Trusted: CBMC/minisat/z3, spec/wasm_int.h transcription, C signed division = Wasm idiv_s/irem_s (congruent terms), C compilers. "
         "Not machine-checked: induction over program structure (DESIGN.md 2.1).",
    technique="CBMC code contracts (dfcc) on runtime macros + per-opcode contracts on w2c2-generated C, SAT/SMT, all operand values",
)
