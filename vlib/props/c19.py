"""C19 - linear memory is little-endian regardless of host byte order.
Everything here is compiled with -DWASM_ENDIAN=WASM_BIG_ENDIAN -DWASM_THREADS_PTHREADS and verified on CBMC's
big-endian memory model (goto-cc --big-endian / cbmc --big-endian), in both swap variants of the header."""
import os
from .. import rmem
from ..core import Job, VERIF

H = os.path.join(VERIF, "harness")
BE = ["WASM_ENDIAN=WASM_BIG_ENDIAN", "WASM_THREADS_PTHREADS"]


def make_jobs(ctx):
    jobs = []
    for tag, variant, defs in (("BEb", "plain", BE), ("BEm", "noswapbuiltin", BE)):
        jobs += rmem.jobs(ctx, ["plain_loads", "plain_stores", "atomic_loads", "atomic_stores"], tag, variant=variant,
                          big_endian=True, defines=defs)
        jobs += rmem.jobs(ctx, ["rmw", "cmpxchg"], tag + ".mtx", variant=variant, big_endian=True, defines=defs, be_mutex=True)
        from ..rlayer import header_variant
        inc = [header_variant(ctx, variant), os.path.join(ctx.repo, "w2c2")]
        hs = ["h_swapU"] + ["h_swap_" + x for x in "sSiIqQfd"] + ["h_bufferReadF32", "h_bufferReadF64"]
        for h in hs:
            fn = {"h_swapU": "swapU16/32/64"}.get(h, h[2:])
            jobs.append(Job("%s.%s" % (tag, h[2:]), os.path.join(H, "c19_swap.c"), entry=h, includes=inc, defines=defs, big_endian=True,
                            funcs=[("buffer.h:" if "buffer" in h else "w2c2_base.h:") + fn],
                            info=dict(layer="R", header_variant=variant, big_endian_model=True)))
    # the WASI host functions write their results into the guest's linear memory: on a big-endian host they must go through the same
    # byte-reversing store helpers (the layout obligations of C12/C15 state the guest-visible LITTLE-endian image; here on the big-endian model)
    from . import c12, c15
    want = ("W.fd_seek.p1", "W.fd_tell", "W.fd_filestat_get.p1", "W.fd_filestat_get.un", "W.fd_read.p1", "W.fd_write.p1", "W.args_sizes_get", "W.args_get.buf1",
            "W.clock_time_get", "W.clock_res_get")
    for mod in (c12, c15):
        for j in mod.make_jobs(ctx):
            if j.name in want:
                j.name = "BE." + j.name
                j.big_endian = True
                j.defines = list(j.defines) + ["WASM_ENDIAN=WASM_BIG_ENDIAN"]
                j.replay = None
                j.info = dict(j.info or {}, big_endian_model=True)
                jobs.append(j)
    # the little-endian configuration of the same functions is C05/C16; the float immediate readers on the LE model:
    inc = [os.path.join(ctx.repo, "w2c2")]
    for h in ("h_bufferReadF32", "h_bufferReadF64"):
        jobs.append(Job("LE." + h[2:], os.path.join(H, "c19_swap.c"), entry=h, includes=inc, funcs=["buffer.h:" + h[2:]],
                        info=dict(layer="R", big_endian_model=False)))
    return jobs


META = dict(
    level="proof",
    trusted_base=["CBMC 6.11 big-endian memory model (goto-cc --big-endian, cbmc --big-endian) stands for a big-endian host",
                  "CBMC models of __builtin_bswap16/32/64 (builtin variant); the mask-and-shift variant needs no model",
                  "spec/wasm_mem.h: postconditions are stated on byte positions, hence independent of host order",
                  "monitor meta-theorem for the mutex-based read-modify-write variants (env/mutex_monitor.h)"],
    assumptions=["memory object of 32 bytes; naturally aligned atomic accesses",
                 "DEFINE_SWAP(32, l, long) instantiations are not claimed (on LP64 they reverse 4 of 8 bytes; unused by generated code)"],
    explanation="All 23 plain and 14 atomic load/store functions and all 49 rmw/xchg/cmpxchg functions re-proved against the byte-position "
                "contracts of C05/C16 on a big-endian abstract host in both swap variants; swapU*, swap_* helpers; bufferReadF32/F64.",
)

CLAIM = dict(
    category="proof",
    text="The byte-position contracts of C05/C16 (which say 'byte k of memory = byte k of the little-endian value') are proved unchanged on "
         "CBMC's big-endian memory model for all 86 access functions and both byte-swap implementations: exactly one reversal of exactly the "
         "access width, none for 8-bit accesses; mutex-based rmw variants relative to the state at lock acquisition; translator float immediates.",
    note="Trusted: CBMC's big-endian model as stand-in for real BE hardware, bswap builtin models, monitor reasoning. Ten of the WASI result-layout obligations of C12/C15 (seek/tell, filestat, read/write counts, args, clocks) are re-run on the big-endian model; the remaining wasi.c entry points are not.",
    technique="CBMC code contracts on a big-endian memory model (dfcc assigns frames + byte-position postconditions)",
)
