"""C13 - WASI descriptors: unique while open, invalid after close, host memory stays safe."""
import os
from ..wasi import wasi_job, entries, H


def make_jobs(ctx):
    jobs = []
    src = "c13_fd.c"
    for e in entries(os.path.join(H, src)):
        nm = e[2:]
        fn = ["wasi.c:" + (nm[5:] if nm.startswith("dead_") else {"init": "wasiInit", "add": "wasiFileDescriptorAdd", "add_oom": "wasiFileDescriptorAdd", "add_small": "wasiFileDescriptorAdd",
                                                                   "close": "fd_close/wasiFileDescriptorClose", "close_twice": "fd_close",
                                                                   "prestat": "fd_prestat_get/fd_prestat_dir_name"}.get(nm, nm))]
        kw = {}
        if nm == "add_oom":
            kw["malloc_may_fail"] = True
            kw["flags"] = ["--malloc-may-fail", "--malloc-fail-null"]
        if nm == "add_small":
            kw["unwind"] = 12
        if nm.startswith("dead_"):
            kw["defines"] = ["GMEM=48"]
            kw["unwind"] = 50
            if "readdir" in nm:
                kw["unwindset"] = "wasiFDReaddir.0:4"   # buffer length <= 8 in these harnesses: at most one record fits
        small = nm in ("prestat", "dead_p1_path_rename_new", "add_oom", "add_small")
        jobs.append(wasi_job(ctx, "W." + nm, src, e, fn,
                             bounded=("descriptor table of <= 4 entries with symbolic states; descriptor paths <= 3 characters" if small else None),
                             info=dict(table="symbolic length up to 2^20 entries (no loop over entries in the code under test); PATH_MAX redefined to 16"), **kw))
        if nm == "close":
            jobs.append(wasi_job(ctx, "W.close.unstable", src, e, ["wasi.c:wasi_unstable__fd_close"], defines=["ABI_UNSTABLE"]))
    return jobs


META = dict(
    level="proof",
    trusted_base=["CBMC 6.11 (pointer checks incl. double free / use of deallocated objects), minisat",
                  "env/posix_model.h: host calls are recorded, their effect on the kernel is not modelled",
                  "history quantifier: wf(table) (a Closed entry has fd=-1, no stream, no path pointer) is pre- and postcondition of every operation (induction on paper); length-2 history close;close proved directly"],
    assumptions=["descriptor table <= 4 entries with symbolic states, descriptor paths <= 3 characters (table code is uniform in both)",
                 "descriptor numbers symbolic over all of U32"],
    explanation="The descriptor table of the real wasi.c as an ADT (init/add/close with frame), EBADF + no host call + no freed-memory access for 26 entry points on closed or never-issued descriptors, prestat on pre-opened directories.",
)

CLAIM = dict(
    category="proof",
    text="Contracts on the real descriptor-table functions and on every descriptor-taking WASI entry point of both ABI generations, for all descriptor numbers: "
         "fresh numbers never alias, 0-2 are the standard streams, close makes the entry Closed without a dangling path, and every call on a Closed or "
         "never-issued descriptor returns EBADF with no host call; CBMC's double-free/deallocated-object checks are the 'never touches released memory' clause.",
    note="Bounded in table size (<= 4 entries) and path length; POSIX is a recording model; per-call contracts + wf induction for arbitrary histories (paper step).",
    technique="CBMC assume/assert contracts on wasi.c (#included whole) against a recording POSIX model; ADT well-formedness invariant",
)
