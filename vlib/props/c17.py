"""C17 - memory.atomic.wait / notify: no lost wake-ups, exact counts, exact return codes."""
import os
from .. import wasm as W
from ..core import Job, VERIF, native_replay_generic

H = os.path.join(VERIF, "harness")


def g_probes(ctx):
    from ..gprobe import ProbeModule, Probe
    from .. import memrec
    pm = ProbeModule("c17wn", memory=(1, 4, True))
    mr = ctx.path("memrec", "memrec.h")
    with open(mr, "w") as f:
        f.write(memrec.text())
    pm.pre_includes = [mr]
    pm.decls = ["static wasmMemory g_mem;"]
    PRE = ["g_mr_calls = 0; g_libm_calls = 0;", "inst.m0 = &g_mem;"]
    for off in (0, 16, 0xFFFFFFF0):
        t = "o%x" % off
        pm.add(Probe("notify" + t, [W.I32, W.I32], W.I32, W.ins("local.get", 0) + W.ins("local.get", 1) + W.ins("memory.atomic.notify", 2, off), pre_stmts=PRE,
                     requires=["(U64)a0 + %dull <= 0xFFFFFFFFull" % off],
                     post=[("g_mr_calls == 1 && g_mr_id == MR_notify && g_mr_mem == inst.m0 && g_mr_addr == (U64)a0 + %dull && g_mr_v0 == a1" % off,
                            "memory.atomic.notify is called on the EFFECTIVE address (address operand + static offset) with the count operand"),
                           ("r == (U32)g_mr_ret", "the number of woken waiters is delivered")], wasm_desc="(memory.atomic.notify offset=%d)" % off))
        pm.add(Probe("wait32" + t, [W.I32, W.I32, W.I64], W.I32, W.ins("local.get", 0) + W.ins("local.get", 1) + W.ins("local.get", 2) + W.ins("memory.atomic.wait32", 2, off),
                     pre_stmts=PRE, requires=["(U64)a0 + %dull <= 0xFFFFFFFFull" % off],
                     post=[("g_mr_calls == 1 && g_mr_id == MR_wait && g_mr_mem == inst.m0 && g_mr_addr == (U64)a0 + %dull && (U32)g_mr_v0 == a1 && g_mr_v1 == a2 && g_mr_v2 == 0" % off,
                            "memory.atomic.wait32 examines the cell at the effective address, with (expected, timeout) in operand order, 32-bit form"),
                           ("r == (U32)g_mr_ret", "the wait result is delivered")], wasm_desc="(memory.atomic.wait32 offset=%d)" % off))
        pm.add(Probe("wait64" + t, [W.I32, W.I64, W.I64], W.I32, W.ins("local.get", 0) + W.ins("local.get", 1) + W.ins("local.get", 2) + W.ins("memory.atomic.wait64", 3, off),
                     pre_stmts=PRE, requires=["(U64)a0 + %dull <= 0xFFFFFFFFull" % off],
                     post=[("g_mr_calls == 1 && g_mr_id == MR_wait && g_mr_mem == inst.m0 && g_mr_addr == (U64)a0 + %dull && g_mr_v0 == a1 && g_mr_v1 == a2 && g_mr_v2 == 1" % off,
                            "memory.atomic.wait64 examines the cell at the effective address, 64-bit form"),
                           ("r == (U32)g_mr_ret", "the wait result is delivered")], wasm_desc="(memory.atomic.wait64 offset=%d)" % off))
    return pm.jobs(ctx, ["wasm_int.h", "libm_markers.h"], "G", defines=["WASM_THREADS_PTHREADS"])


def make_jobs(ctx):
    inc = [os.path.join(ctx.repo, "futex"), os.path.join(ctx.repo, "w2c2")]
    rp = lambda c, j, p, v: native_replay_generic(c, j, p, v)
    D = ["WASM_THREADS_PTHREADS"]
    jobs = [
        Job("ADT.list", os.path.join(H, "c17_futex.c"), entry="h_list", includes=inc, defines=D, funcs=["list.c:listPrepend", "list.c:listRemove", "list.c:listInitialize"],
            replay=rp, bounded="lists of <= 4 elements", flags=["--unwind", "8", "--unwinding-assertions"]),
        Job("ADT.map", os.path.join(H, "c17_futex.c"), entry="h_map", includes=inc, defines=D, funcs=["map.c:mapGet", "map.c:mapInsert", "map.c:mapRemove", "map.c:mapInitialize"],
            replay=rp, bounded="<= 3 keys colliding in one bucket", flags=["--unwind", "8", "--unwinding-assertions"]),
        Job("RG.notify", os.path.join(H, "c17_futex.c"), entry="h_notify", includes=inc, defines=D, funcs=["futex.c:wasmMemoryAtomicNotify"], replay=rp,
            bounded="<= 2 waiters on the address + 1 waiter on a colliding address, symbolic statuses and count", flags=["--unwind", "8", "--unwinding-assertions"]),
        Job("RG.wait", os.path.join(H, "c17_futex.c"), entry="h_wait", includes=inc, defines=D + ["SPURIOUS_MAX=%d" % (4 if ctx.tier == "thorough" else 2)],
            funcs=["futex.c:wasmMemoryAtomicWait"], replay=rp, timeout=(1500 if ctx.tier == "thorough" else 400),
            bounded="<= 2 other waiters on the address + 1 on a colliding address; <= %d spurious wake-ups; address fixed to 8 (map generic in the key: ADT.map)" % (4 if ctx.tier == "thorough" else 2),
            flags=["--unwind", "18", "--unwinding-assertions", "--unwindset",
                   "wasmMemoryAtomicWait.0:%d,wasmMemoryAtomicWait.1:%d" % ((6, 6) if ctx.tier == "thorough" else (4, 4))]),
    ]
    jobs += g_probes(ctx)
    jobs.append(Job("R.cond_relative_wait", os.path.join(H, "c17_cond.c"), entry="h_cond_relative_wait", includes=inc, defines=D, funcs=["w2c2_base.h:wasmCondRelativeWait"], replay=rp, solver="z3",
                    info=dict(layer="R", note="clock_gettime and pthread_cond_timedwait are recorders; every current time, every timeout 0..4*10^18 ns")))
    return jobs


META = dict(
    level="proof",
    trusted_base=["CBMC 6.11, minisat", "monitor meta-theorem for pthread mutex + condition variable (env/mutex_monitor.h and the condition model in harness/c17_futex.c): the "
                  "interference of other threads happens only while the mutex is released inside the condition wait, where the model lets a notifier flip the status, "
                  "lets the OS return spuriously, and lets a timed wait time out",
                  "call-site contracts (layer G) on the code generated for memory.atomic.notify/wait32/wait64"],
    assumptions=["interleavings are not enumerated; liveness (a blocked waiter is eventually woken) is not addressed beyond 'lock released on every path, every blocked waiter is in the list of its address'",
                 "list/bucket sizes bounded as stated per job"],
    explanation="G: the effective address (operand + static offset) reaches the runtime for notify/wait32/wait64. ADT: list and map contracts incl. bucket collisions. "
                "RG: sequential monitor obligations on the real wasmMemoryAtomicNotify and wasmMemoryAtomicWait.",
)

CLAIM = dict(
    category="proof",
    text="Unbounded call-site contracts on the generated C (effective address = operand + offset for all operand values); bounded-but-complete ADT contracts on the "
         "futex list/map (collisions, head/non-head removal); rely/guarantee obligations on the real wait/notify: cell examined under the lock, waiter linked in the "
         "list of its address before it first blocks, notify wakes exactly min(count, waiting) waiters of exactly that address and returns that number, return codes 0/1/2, "
         "unlinking, bucket cleanup, lock released on every path, no access to freed nodes (CBMC pointer checks).",
    note="Schedules are not explored: monitor reasoning is assumed sound. Waiter lists <= 2+1, spurious wake-ups <= 1 (quick) / 3 (thorough).",
    technique="CBMC contracts: call-site contracts on generated code + ADT contracts + rely/guarantee monitor obligations with a condition-variable model",
)
