"""C16 - atomic memory instructions have specified results and are atomic across threads."""
import os, re, subprocess
from .. import wasm as W
from .. import rmem
from ..core import Job, Undecided, VERIF

KINDS = ["atomic_loads", "atomic_stores", "rmw", "cmpxchg"]


def seqcst_fact(ctx, job):
    """Static fact: on little-endian hosts every atomic access function of w2c2_base.h consists of exactly one
    __atomic_* builtin whose memory-order arguments are all __ATOMIC_SEQ_CST (decided on gcc -E output)."""
    hdr = os.path.join(ctx.repo, "w2c2", "w2c2_base.h")
    r = subprocess.run(["gcc", "-E", "-P", "-x", "c", hdr], capture_output=True)
    if r.returncode != 0:
        raise Undecided("gcc -E failed on w2c2_base.h")
    text = r.stdout.decode(errors="replace")
    seq = subprocess.run(["gcc", "-E", "-P", "-x", "c", "-"], input=b"__ATOMIC_SEQ_CST\n", capture_output=True).stdout.decode().strip()
    facts = []
    names = [n for n, _, _ in rmem.ATOMIC_LOADS] + [n for n, _, _ in rmem.ATOMIC_STORES] + \
            [f % op for op in rmem.RMW_OPS + ["cmpxchg"] for f, _, _ in rmem.RMW_FORMS]
    for n in names:
        m = re.search(r"\b%s\s*\(wasmMemory\s*\*\s*mem[^)]*\)\s*\{(.*?)\n?\}" % re.escape(n), text, re.S)
        if not m:
            facts.append(("%s: function present in the preprocessed header" % n, False, "not found"))
            continue
        body = m.group(1)
        calls = re.findall(r"__atomic_\w+\s*\(", body)
        orders = re.findall(r",\s*(\d+)\s*(?=[,)])", body)
        # memory-order arguments are the trailing integer literal arguments of the builtin call
        mo = re.findall(r"__atomic_\w+\s*\((.*)\)", body, re.S)
        ok_one = len(calls) == 1
        args = mo[0] if mo else ""
        # strip nested parentheses conservatively: take the literal tokens at the end of the argument list
        tail = re.findall(r"(?:,\s*(\d+)\s*)+\)?\s*$", args)
        lits = re.findall(r",\s*(\d+)\b", args)
        is_cmpx = "compare_exchange" in body
        need = 2 if is_cmpx else 1
        mos = lits[-need:] if len(lits) >= need else []
        ok_mo = len(mos) == need and all(x == seq for x in mos)
        facts.append(("%s: is exactly one __atomic_* builtin (indivisible on the host)" % n, ok_one, "calls=%r" % calls))
        facts.append(("%s: every memory-order argument is __ATOMIC_SEQ_CST" % n, ok_mo, "args tail=%r seq_cst=%s" % (mos, seq)))
    return facts


def make_jobs(ctx):
    jobs = []
    jobs += rmem.jobs(ctx, KINDS, "R", ub_checks=True)
    # the configuration without hardware atomics on byte-swapped cells (big-endian hosts): EVERY read-modify-write of a memory goes through the one
    # memory mutex (monitor model: havoc at acquisition) - one lock-free flavour among them would break atomicity of all the others
    jobs += rmem.jobs(ctx, ["rmw", "cmpxchg"], "BEm.mtx", variant="noswapbuiltin", big_endian=True,
                      defines=["WASM_ENDIAN=WASM_BIG_ENDIAN", "WASM_THREADS_PTHREADS"], be_mutex=True)
    j = Job("S.seqcst", src=None, solver="static", funcs=["w2c2_base.h:atomic_* macro table"],
            info=dict(layer="static", static_cmd="gcc -E -P w2c2_base.h | per-function body inspection"))
    j.static_fn = seqcst_fact
    jobs.append(j)
    jobs += g_probes(ctx)
    from ..eexpr import memop_jobs
    jobs += memop_jobs(ctx, (2, 3))      # every atomic load / store opcode -> its runtime function, result type and natural alignment, at every stack height
    return jobs


AT_LOADS = [("i32.atomic.load", W.I32, 2), ("i64.atomic.load", W.I64, 3), ("i32.atomic.load8_u", W.I32, 0), ("i32.atomic.load16_u", W.I32, 1),
            ("i64.atomic.load8_u", W.I64, 0), ("i64.atomic.load16_u", W.I64, 1), ("i64.atomic.load32_u", W.I64, 2)]
AT_STORES = [("i32.atomic.store", W.I32, 2), ("i64.atomic.store", W.I64, 3), ("i32.atomic.store8", W.I32, 0), ("i32.atomic.store16", W.I32, 1),
             ("i64.atomic.store8", W.I64, 0), ("i64.atomic.store16", W.I64, 1), ("i64.atomic.store32", W.I64, 2)]
RMW_W = [("i32.atomic.rmw.%s", W.I32, 2, "i32_atomic_rmw_%s"), ("i64.atomic.rmw.%s", W.I64, 3, "i64_atomic_rmw_%s"),
         ("i32.atomic.rmw8.%s_u", W.I32, 0, "i32_atomic_rmw8_%s_u"), ("i32.atomic.rmw16.%s_u", W.I32, 1, "i32_atomic_rmw16_%s_u"),
         ("i64.atomic.rmw8.%s_u", W.I64, 0, "i64_atomic_rmw8_%s_u"), ("i64.atomic.rmw16.%s_u", W.I64, 1, "i64_atomic_rmw16_%s_u"),
         ("i64.atomic.rmw32.%s_u", W.I64, 2, "i64_atomic_rmw32_%s_u")]
PRE = ["g_mr_calls = 0; g_libm_calls = 0;", "inst.m0 = &g_mem;"]


def g_probes(ctx):
    from ..gprobe import ProbeModule, Probe
    from .. import memrec
    pm = ProbeModule("c16atm", memory=(1, 4, True))
    mr = ctx.path("memrec", "memrec.h")
    with open(mr, "w") as f:
        f.write(memrec.text())
    pm.pre_includes = [mr]
    pm.decls = ["static wasmMemory g_mem;"]
    site = "g_mr_calls == 1 && g_mr_id == MR_%s && g_mr_mem == inst.m0 && g_mr_addr == (U64)a0 + %dull"
    for op, t, al in AT_LOADS:
        h = op.replace(".", "_")
        for off in (0, 0xFFFFFFF8):
            pm.add(Probe("%so%x" % (op.replace(".", "").replace("_", ""), off), [W.I32], t, W.ins("local.get", 0) + W.ins(op, al, off), pre_stmts=PRE,
                         post=[(site % (h, off), "exactly one call of %s on memory 0 with base+offset in 64 bits" % h),
                               ("(U64)r == g_mr_ret", "the loaded value is delivered unchanged")], wasm_desc="(%s offset=%d)" % (op, off)))
    for op, t, al in AT_STORES:
        h = op.replace(".", "_")
        for off in (0, 0xFFFFFFF8):
            pm.add(Probe("%so%x" % (op.replace(".", "").replace("_", ""), off), [W.I32, t], None,
                         W.ins("local.get", 0) + W.ins("local.get", 1) + W.ins(op, al, off), pre_stmts=PRE,
                         post=[((site % (h, off)) + " && g_mr_v0 == (U64)a1", "exactly one call of %s: address below, value on top" % h)],
                         wasm_desc="(%s offset=%d)" % (op, off)))
    for rop in ["add", "sub", "and", "or", "xor", "xchg"]:
        for form, t, al, hf in RMW_W:
            op, h = form % rop, hf % rop
            pm.add(Probe(op.replace(".", "").replace("_", ""), [W.I32, t], t, W.ins("local.get", 0) + W.ins("local.get", 1) + W.ins(op, al, 8),
                         pre_stmts=PRE, post=[((site % (h, 8)) + " && g_mr_v0 == (U64)a1", "exactly one call of %s(memory 0, base+offset, operand)" % h),
                                              ("(U64)r == g_mr_ret", "the old value is delivered")], wasm_desc="(%s offset=8)" % op))
    for form, t, al, hf in RMW_W:
        op, h = form % "cmpxchg", hf % "cmpxchg"
        pm.add(Probe(op.replace(".", "").replace("_", ""), [W.I32, t, t], t,
                     W.ins("local.get", 0) + W.ins("local.get", 1) + W.ins("local.get", 2) + W.ins(op, al, 8), pre_stmts=PRE,
                     post=[((site % (h, 8)) + " && g_mr_v0 == (U64)a1 && g_mr_v1 == (U64)a2", "exactly one call of %s(memory 0, base+offset, expected, replacement) in operand order" % h),
                           ("(U64)r == g_mr_ret", "the old value is delivered")], wasm_desc="(%s offset=8)" % op))
    pm.add(Probe("atomicfence", [W.I32], W.I32, W.ins("local.get", 0) + W.ins("atomic.fence"), spec="a0", pre_stmts=PRE,
                 post=[("g_mr_calls == 0", "atomic.fence touches no memory and no operand")], wasm_desc="(atomic.fence)"))
    return pm.jobs(ctx, ["wasm_int.h", "libm_markers.h"], "G", defines=["WASM_THREADS_PTHREADS"])


META = dict(
    level="proof",
    trusted_base=["CBMC 6.11 incl. its sequential models of the __atomic_* builtins; minisat",
                  "spec/wasm_mem.h transcription of the threads-proposal rmw/cmpxchg semantics",
                  "atomicity across threads: each operation is ONE __atomic_* builtin with __ATOMIC_SEQ_CST (static fact S.seqcst); that compilers/hardware make such a builtin atomic and sequentially consistent is assumed",
                  "no interleaving is explored (DESIGN.md section 6)"],
    assumptions=["memory object of 32 bytes, naturally aligned addresses", "gcc/clang atomic builtins are atomic and sequentially consistent"],
    explanation="R: 7 atomic loads, 7 stores, 42 rmw and 7 cmpxchg functions of the real header: returned old value, wrapped new value in little-endian "
                "order, write iff wrapped expected equals old, frame = the cell. S: one seq_cst builtin per operation. G: call-site contracts for every atomic opcode.",
)

CLAIM = dict(
    category="proof",
    text="Sequential result semantics of all 63 atomic access functions proved for all operand values and (aligned) addresses with dfcc frames; "
         "the generated call sites of all 64 atomic opcodes proved to pass base+offset, operands in order and to deliver the old value. Cross-thread "
         "atomicity is reduced to the static fact that each operation is exactly one __atomic builtin with seq_cst ordering; interleavings are not explored. "
         "The atomic load / store emitters of c.c are under a per-opcode contract at every operand-stack height (opcode -> runtime function, result type, natural alignment; thorough tier).",
    note="Assumed: compiler atomic builtins are atomic and sequentially consistent; CBMC's sequential model of the builtins. Schedules: none explored.",
    technique="CBMC code contracts on the atomic runtime functions + call-site contracts on generated code + static seq_cst fact",
)
