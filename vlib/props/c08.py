"""C08 - translation depends on the decoded module, not on its byte encoding."""
import os, subprocess, random
from .. import wasm as W
from ..core import Job, VERIF, native_replay_generic, Undecided
from ..elayer import ejob

H = os.path.join(VERIF, "harness")


def sample_module(variant):
    """One module, many encodings. variant: dict(sizepad, countpad, pad (immediates), customs (list of section ids), dataflag, omit_empty)"""
    pad = variant.get("pad", 0)
    m = W.Module()
    m.import_func("env", "host", [W.I32], [W.I32])
    g = m.global_(W.I32, True, W.ins("i32.const", 7, pad=pad))
    m.memory(1, 2)
    m.table(2, 2)
    body0 = W.ins("local.get", 0, pad=pad) + W.ins("i32.const", 0x12345, pad=pad) + W.ins("i32.add") + W.ins("call", 0, pad=pad) + W.ins("global.set", g, pad=pad) + \
        W.ins("global.get", g, pad=pad) + W.ins("i32.load", 2, 8, pad=pad)
    f0 = m.func([W.I32], [W.I32], body0, export="run")
    body1 = W.ins("block", W.I64) + W.ins("i64.const", -5, pad=(pad * 2 if pad else 0)) + W.ins("local.get", 0, pad=pad) + W.ins("br_if", 0, pad=pad) + W.ins("drop") + \
        W.ins("i64.const", 9, pad=(pad * 2 if pad else 0)) + W.ins("end") + W.ins("local.set", 1, pad=pad) + W.ins("local.get", 1, pad=pad)
    m.func([W.I32], [W.I64], body1, locals_=([(0, W.F32), (1, W.I64), (0, W.I32)] if variant.get("emptygroup") else [(1, W.I64)]), export="sel")
    t1 = m.type([W.I32], [W.I32])
    m.func([W.I32], [W.I32], W.ins("local.get", 0, pad=pad) + W.ins("i32.const", 1, pad=pad) + W.ins("call_indirect", t1, 0, pad=pad), export="ind")
    m.elem(W.ins("i32.const", 0, pad=pad), [f0, f0])
    m.data(W.ins("i32.const", 8, pad=pad), b"hello", flag=variant.get("dataflag", 0))
    m.data(W.ins("i32.const", 10, pad=pad), b"XY", flag=0)
    for sid in variant.get("customs", []):
        m.custom(sid, variant.get("cname", "meta"), variant.get("cpayload", b"\x01\x02\x03"))
    return m.encode(sizepad=variant.get("sizepad", 0), countpad=variant.get("countpad", 0))


def reencoding(ctx, job):
    """Bounded corroboration on the real binary: spec-equivalent encodings of one module must translate to identical files."""
    rnd = random.Random(ctx.seed)
    base = sample_module({})
    d0, r0 = ctx.translate(base, "m", ())
    if d0 is None:
        raise Undecided("w2c2 rejected the base module")
    # "the same SET of C definitions": the order of function definitions in the file follows the byte size of the bodies (work distribution),
    # which an equivalent but longer encoding legitimately changes - so files are compared as sorted lists of blank-line separated definitions
    defs = lambda b: sorted(x for x in b.split(b"\n\n") if x.strip())
    ref = {f: defs(open(os.path.join(d0, f), "rb").read()) for f in ("m.c", "m.h")}
    variants = [("sizepad5", dict(sizepad=5)), ("countpad5", dict(countpad=5)), ("immediates_padded", dict(pad=5)), ("dataflag2", dict(dataflag=2)), ("empty_local_groups", dict(emptygroup=1)),
                ("custom_everywhere", dict(customs=[1, 2, 3, 4, 5, 6, 7, 9, 10, 11, "end"])),
                ("custom_padded_size", dict(customs=[3, 10, "end"], sizepad=3)),
                ("custom_long_name", dict(customs=[5], cname="n" * 130, cpayload=b"")),
                ("custom_empty_name", dict(customs=[7, "end"], cname="", cpayload=b"\x00\xff")),
                ("all", dict(sizepad=4, countpad=3, pad=5, dataflag=2, emptygroup=1, customs=[1, 6, 11, "end"]))]
    for i in range(4 if ctx.tier == "quick" else 40):
        variants.append(("random%d" % i, dict(sizepad=rnd.choice([0, 2, 5]), countpad=rnd.choice([0, 2, 5]), pad=rnd.choice([0, 5]), dataflag=rnd.choice([0, 2]), emptygroup=rnd.choice([0, 1]),
                                              customs=rnd.sample([1, 2, 3, 4, 5, 6, 7, 9, 10, 11, "end"], rnd.randint(0, 4)),
                                              cname="c" * rnd.randint(0, 9), cpayload=bytes(rnd.getrandbits(8) for _ in range(rnd.randint(0, 9))))))
    facts = []
    # "absent optional sections mean empty, never garbage": a module that needs none of the optional sections, written with every section present
    # but empty and with the empty ones omitted (fresh heap memory is filled with 0xA5 for these runs)
    mm = W.Module()
    mm.func([W.I32], [W.I32], W.ins("local.get", 0) + W.ins("i32.const", 1) + W.ins("i32.add"))
    outs = {}
    for oname, omit in (("empty_sections_present", False), ("empty_sections_omitted", True)):
        dd = os.path.dirname(ctx.path("gen", "re_" + oname, "x"))
        wp = os.path.join(dd, "m.wasm")
        open(wp, "wb").write(mm.encode(omit_empty=omit))
        r = subprocess.run([ctx.w2c2(), wp, os.path.join(dd, "m.c")], capture_output=True, cwd=dd, timeout=60, env=dict(os.environ, MALLOC_PERTURB_="165"))
        ok = r.returncode == 0 and os.path.exists(os.path.join(dd, "m.c"))
        outs[oname] = defs(open(os.path.join(dd, "m.c"), "rb").read()) if ok else None
        facts.append(("a module without imports, exports, tables, memories, globals, segments or start function (%s) is accepted" % oname.replace("_", " "), ok,
                      "rc=%s %s module_hex=%s" % (r.returncode, r.stderr.decode(errors="replace")[-200:], mm.encode(omit_empty=omit).hex())))
    facts.append(("omitting the empty sections gives the same set of C definitions as writing them empty", outs.get("empty_sections_present") is not None and outs.get("empty_sections_present") == outs.get("empty_sections_omitted"), ""))
    for name, v in variants:
        try:
            enc = sample_module(v)
        except Exception as e:
            facts.append(("re-encoding %s: encoder" % name, False, repr(e)))
            continue
        ctx._w2c2 and None
        dd = ctx.path("gen", "re_" + name, "x")
        dd = os.path.dirname(dd)
        wp = os.path.join(dd, "m.wasm")
        open(wp, "wb").write(enc)
        r = subprocess.run([ctx.w2c2(), wp, os.path.join(dd, "m.c")], capture_output=True, cwd=dd, timeout=60, env=dict(os.environ, MALLOC_PERTURB_="165"))   # fresh heap memory is not zero: "absent optional sections mean empty, never garbage"
        ok = r.returncode == 0 and all(os.path.exists(os.path.join(dd, f)) and defs(open(os.path.join(dd, f), "rb").read()) == ref[f] for f in ("m.c", "m.h"))
        facts.append(("re-encoding '%s' (%s) is accepted and translates to the same set of byte-identical C definitions in m.c / m.h" % (name, ", ".join("%s=%s" % (k, (x if not isinstance(x, (bytes, str)) or len(x) < 12 else "...")) for k, x in v.items())),
                      ok, "rc=%s %s module_hex=%s" % (r.returncode, r.stderr.decode(errors="replace")[-200:], enc.hex()[:600])))
    return facts


def make_jobs(ctx):
    jobs = []
    inc = [os.path.join(ctx.repo, "w2c2")]
    rp = lambda c, j, p, v: native_replay_generic(c, j, p, v)
    NOUB = ["--no-signed-overflow-check", "--no-undefined-shift-check"]
    for h, fn in (("h_u32", "leb128ReadU32"), ("h_i32", "leb128ReadI32"), ("h_u64", "leb128ReadU64"), ("h_i64", "leb128ReadI64"), ("h_trunc", "leb128Read* (truncated input)")):
        jobs.append(Job("RD." + h[2:], os.path.join(H, "leb.c"), entry=h, includes=inc, funcs=["leb128.h:" + fn], replay=rp,
                        flags=["--unwind", "12", "--unwinding-assertions"] + NOUB, info=dict(layer="RD", note="loops bounded by the constants 5 / 10 of the code: complete")))
    U = ["--unwind", "50", "--unwinding-assertions"] + NOUB
    jobs.append(ejob(ctx, "RD.limits", "c08_reader.c", "h_limits", ["reader.c:wasmReadLimits"], flags=U))
    jobs.append(ejob(ctx, "RD.memory_type", "c08_reader.c", "h_limits", ["reader.c:wasmReadMemoryType"], defines=["LIM_MEMORY"], flags=U))
    jobs.append(ejob(ctx, "RD.memory_type.max0", "c08_reader.c", "h_limits", ["reader.c:wasmReadMemoryType"], defines=["LIM_MEMORY", "LIM_CLASS_MAX0"], flags=U,
                     info=dict(note="full domain incl. a declared maximum of 0 pages")))
    jobs.append(ejob(ctx, "RD.table_type", "c08_reader.c", "h_limits", ["reader.c:wasmReadTableType"], defines=["LIM_TABLE"], flags=U))
    jobs.append(ejob(ctx, "RD.data_segment", "c08_reader.c", "h_dataseg", ["reader.c:wasmReadDataSegment", "reader.c:wasmReadConstantExpr", "reader.c:wasmReadBytes"], flags=U,
                     bounded="payload <= 2 bytes (offset constant and all paddings symbolic)"))
    jobs.append(ejob(ctx, "RD.custom_section", "c08_reader.c", "h_custom", ["reader.c:wasmReadCustomSection", "reader.c:wasmReadName"],
                     flags=["--unwind", "50", "--unwinding-assertions", "--unwindset", "memcmp.0:400"] + NOUB,
                     bounded="custom section name <= 6 bytes, content <= 6 bytes, name-length LEB padded 1..5"))
    for h, fns in (("local", ["wasmLocalInstructionRead"]), ("global", ["wasmGlobalInstructionRead"]), ("call", ["wasmCallInstructionRead"]), ("branch", ["wasmBranchInstructionRead"]),
                   ("memory", ["wasmMemoryInstructionRead"]), ("memarg", ["wasmMemoryArgumentInstructionRead"]), ("call_indirect", ["wasmCallIndirectInstructionRead"]),
                   ("memory_copy", ["wasmMemoryCopyInstructionRead"]), ("memory_init", ["wasmMemoryInitInstructionRead"]), ("br_table", ["wasmBranchTableInstructionRead"]),
                   ("const_i32", ["wasmConstInstructionRead", "leb128ReadI32"]), ("const_i64", ["wasmConstInstructionRead", "leb128ReadI64"])):
        jobs.append(Job("RD.instr." + h, os.path.join(H, "c08_instr.c"), entry="h_" + h, includes=inc, funcs=["instruction.c:" + f if f.startswith("wasm") else "leb128.h:" + f for f in fns],
                        flags=["--unwind", "12", "--unwinding-assertions"] + NOUB, replay=rp,
                        info=dict(layer="RD", note="every field padded to a symbolic length 1..5 (1..10 for i64), symbolic value; one trailing byte must remain")))
    from ..eexpr import expr_jobs
    jobs += expr_jobs(ctx, ["local_get", "local_get_invalid", "dispatch"])      # dispatch: padded sub-opcodes of prefixed instructions
    j = Job("B.reencoding", src=None, solver="static", funcs=["w2c2 binary: reader.c + c.c end to end"],
            bounded="one module, %d spec-equivalent encodings (padding of sizes/counts/immediates, custom sections at every boundary, flag 0 vs flag 2)" % (13 if ctx.tier == "quick" else 49),
            info=dict(layer="bounded corroboration on the real binary (not the deciding step)"))
    j.static_fn = reencoding
    jobs.append(j)
    return jobs


META = dict(
    level="proof",
    trusted_base=["CBMC 6.11, minisat", "spec encoders in harness/leb.c and harness/c08_reader.c (binary format 5.2-5.5)"],
    assumptions=["per-section relational obligations are built for limits / memory type / table type / data segments / custom sections; the remaining section readers "
                 "(types, imports, functions, globals, exports, elements, code) are covered only through the LEB128 contracts they are made of and by the bounded re-encoding corroboration",
                 "custom section names are NUL-free"],
    explanation="Unbounded: LEB128 decoders for every value and padded length; limits/memory/table types for all values and paddings. Relational: data segments flag 0 == flag 2. "
                "Frame: custom sections are skipped by exactly their size and leave the module untouched. Bounded: byte-identical output for re-encodings on the real binary.",
)

CLAIM = dict(
    category="proof",
    text="CBMC proofs that every padded LEB128 encoding decodes to the same value and length, that limits / memory / table types and data segments in spec-equivalent "
         "encodings decode to identical structures (and to the encoded field values), and that custom sections are consumed exactly and change nothing. Other section "
         "readers are composed of the proved LEB primitives; their composition is checked only by the bounded re-encoding run on the real binary.",
    note="All 12 instruction-immediate readers of instruction.c are under contract for every padded encoding (value and exact consumption); not every section reader has its own relational contract; vectors/payloads bounded where stated; re-encoding run is corroboration, labelled bounded.",
    technique="CBMC relational contracts (two encodings, one decoder) on the real reader.c + bounded re-encoding corroboration on the built binary",
)
