"""C11 - generated C is well-defined: same results for every compiler and -O level."""
import os, subprocess, re
from .. import wasm as W
from ..core import Job, Undecided, VERIF
from ..gprobe import ProbeModule, operator_contexts
from ..rlayer import jobs as rjobs
from . import c01, c02, c03
from ..eexpr import expr_jobs, EMITTERS

UB = ["--signed-overflow-check", "--undefined-shift-check", "--div-by-zero-check", "--pointer-overflow-check", "--float-overflow-check", "--nan-check"]
UBF = ["--signed-overflow-check", "--undefined-shift-check", "--div-by-zero-check", "--pointer-overflow-check"]
BOUNDARY = {W.I32: [0, 1, 2, 31, 32, 33, 0x7FFFFFFF, 0x80000000, 0x80000001, 0xFFFFFFFF, 0xFFFFFFFE, 0x12345678],
            W.I64: [0, 1, 63, 64, 65, 0x7FFFFFFFFFFFFFFF, 0x8000000000000000, 0xFFFFFFFFFFFFFFFF, 0xFFFFFFFF, 0x100000000, 0x123456789ABCDEF0],
            W.F32: [0x0, 0x80000000, 0x3F800000, 0xBF800000, 0x7F800000, 0xFF800000, 0x7FC00000, 0x00000001, 0x7F7FFFFF, 0x4F000000, 0xCF000000, 0x4F800000, 0xBF000000, 0x3EFFFFFF],
            W.F64: [0x0, 0x8000000000000000, 0x3FF0000000000000, 0x7FF0000000000000, 0xFFF0000000000000, 0x7FF8000000000000, 0x1, 0x7FEFFFFFFFFFFFFF, 0x41E0000000000000,
                    0xC1E0000000000000, 0xC1E0000000200000, 0x43E0000000000000, 0x43F0000000000000, 0xBFE0000000000000]}


def build_modules(ctx):
    pmi = ProbeModule("c11int")
    for (op, pt, rt, spec, trap, solver) in c01.int_ops():
        base = op.replace(".", "").replace("_", "")
        for p in operator_contexts(base, op, pt, rt, spec, trap, solver=("z3" if solver == "smt" else "sat"), gmap=pmi.g, wasm_name=op, contexts=(1,)):
            pmi.add(p)
    pmf = ProbeModule("c11flt")
    for (op, pt, rt, spec, trap, eq, libm) in c02.float_ops():
        base = op.replace(".", "").replace("_", "")
        solver = "z3" if op.split(".")[1] in ("add", "sub", "mul", "div") or "convert" in op or "demote" in op or "promote" in op else "sat"
        for p in operator_contexts(base, op, pt, rt, spec, trap, gmap=pmf.g, wasm_name=op, eq=eq, libm=libm, solver=solver, contexts=(0,)):
            pmf.add(p, split_nan=(op == "f64.div"))
    return pmi, pmf


class _Names(object):
    """imports, exports and globals whose names contain non-ASCII (UTF-8), punctuation, underscores in every position and the escape letter X"""
    modname = "c11names"
    probes = []

    def __init__(self):
        m = W.Module()
        h = m.import_func("env", "h\u00e9_llo", [W.I32], [W.I32])
        h2 = m.import_func("__e__", "_lead__double___x_", [W.I32], [W.I32])
        g = m.import_global("e\u00e9", "g\u00fc-X.$", W.I32, False)
        m.memory(1, 1)
        m.func([W.I32], [W.I32], W.ins("local.get", 0) + W.ins("call", h) + W.ins("call", h2) + W.ins("global.get", g) + W.ins("i32.add"), export="r\u00e9n X_\u4e16\u754c")
        self.m = m


def mem_module():
    """loads and stores at ANY alignment and with a store of one type followed by a load of another: correct only if the runtime copies bytes
    (memcpy); a typed pointer access is misaligned / aliasing undefined behaviour that shows at -O2 and under -fsanitize=alignment"""
    from ..gprobe import ProbeModule, Probe
    pm = ProbeModule("c11mem", memory=(1, 1))
    pm.needs_instantiate = True
    A = W.ins("local.get", 0) + W.ins("i32.const", 0xFF) + W.ins("i32.and")            # address 0..255, odd ones included
    pm.add(Probe("st32ldf32", [W.I32, W.I32], W.I32, A + W.ins("local.get", 1) + W.ins("i32.store", 0, 0) + A + W.ins("f32.load", 0, 0) + W.ins("i32.reinterpret_f32")))
    pm.add(Probe("st64ld32hi", [W.I32, W.I64], W.I32, A + W.ins("local.get", 1) + W.ins("i64.store", 0, 0) + A + W.ins("i32.load", 0, 4)))
    pm.add(Probe("stf64ld64", [W.I32, W.F64], W.I64, A + W.ins("local.get", 1) + W.ins("f64.store", 0, 0) + A + W.ins("i64.load", 0, 0)))
    pm.add(Probe("st16ld8", [W.I32, W.I32], W.I32, A + W.ins("local.get", 1) + W.ins("i32.store16", 0, 1) + A + W.ins("i32.load8_u", 0, 2)))
    pm.add(Probe("st32ld16s", [W.I32, W.I32], W.I32, A + W.ins("local.get", 1) + W.ins("i32.store", 0, 3) + A + W.ins("i32.load16_s", 0, 4)))
    return pm


def names_module():
    return _Names()


def compile_matrix(ctx, job):
    """Supporting static facts + bounded differential corroboration (NOT the deciding step):
    the generated probe modules compile as GNU C89 and as the default dialect with gcc and clang, and a driver over boundary inputs prints
    identical results for {gcc,clang} x {-O0,-O3} and under -fsanitize=undefined,address without any report."""
    facts = []
    pmi, pmf = build_modules(ctx)
    pm3 = c03.build(ctx, "c11cf", 8)
    for pm in (pmi, pmf, pm3, names_module(), mem_module()):
        d, r = ctx.translate(pm.m.encode(), pm.modname + "x", ())
        if d is None:
            raise Undecided("translator rejected " + pm.modname)
        cfile = os.path.join(d, pm.modname + "x.c")
        for cc in ("gcc", "clang"):
            for std in ("-std=gnu89", ""):
                cmd = [cc] + ([std] if std else []) + ["-fsyntax-only", "-pedantic-errors", "-Wno-long-long", "-Wno-unused", "-I", os.path.join(ctx.repo, "w2c2"), cfile]
                rr = subprocess.run(cmd, capture_output=True)
                facts.append(("%s %s accepts the generated C of %s (with the runtime header) without errors" % (cc, std or "(default dialect)", pm.modname), rr.returncode == 0,
                              rr.stderr.decode(errors="replace")[:300]))
        if not pm.probes:
            continue
        # differential driver
        mod = pm.modname + "x"
        lines = ['#include <stdio.h>', '#include <setjmp.h>', '#include <string.h>', '#include "%s.h"' % mod, "static jmp_buf jb; void trap(Trap t) { longjmp(jb, 1 + (int)t); }",
                 "static unsigned u32b(float f){unsigned u;memcpy(&u,&f,4);return u;} static unsigned long long u64b(double f){unsigned long long u;memcpy(&u,&f,8);return u;}",
                 "static float f32b(unsigned u){float f;memcpy(&f,&u,4);return f;} static double f64b(unsigned long long u){double f;memcpy(&f,&u,8);return f;}",
                 "static %sInstance inst;" % mod, "int main(void) { int t;" + (" %sInstantiate(&inst, 0);" % mod if getattr(pm, "needs_instantiate", False) else "")]
        conv_in = {W.I32: "%uu", W.I64: "%uull", W.F32: "f32b(%uu)", W.F64: "f64b(%uull)"}
        outfmt = {W.I32: ('"%u"', "(unsigned)(%s)"), W.I64: ('"%llu"', "(unsigned long long)(%s)"), W.F32: ('"%08x"', "u32b(%s)"), W.F64: ('"%016llx"', "u64b(%s)")}
        import itertools
        for p in pm.probes[: (200 if ctx.tier == "quick" else 100000)]:
            sets = [BOUNDARY[t][: (4 if len(p.params) > 2 else 8)] for t in p.params]
            for combo in itertools.islice(itertools.product(*sets), 0, 64):
                args = ", ".join(conv_in[t] % v for t, v in zip(p.params, combo))
                call = "%s_%s(&inst%s)" % (mod, getattr(p, "func_name", p.name), (", " + args) if args else "")
                if p.result is None:
                    lines.append('  if ((t = setjmp(jb)) == 0) { %s; printf("%s ok\\n"); } else printf("%s trap %%d\\n", t - 1);' % (call, p.name, p.name))
                else:
                    fmt, conv = outfmt[p.result]
                    lines.append('  if ((t = setjmp(jb)) == 0) { printf("%s " %s "\\n", %s); } else printf("%s trap %%d\\n", t - 1);' % (p.name, fmt, conv % call, p.name))
        lines.append("  return 0; }")
        drv = os.path.join(d, "drv.c")
        open(drv, "w").write("\n".join(lines))
        outs = {}
        builds = [("gcc", "-O0", []), ("gcc", "-O3", []), ("clang", "-O0", []), ("clang", "-O3", []), ("gcc", "-O1", ["-fsanitize=undefined,address", "-fno-sanitize-recover=all"])]
        for cc, o, extra in builds:
            exe = os.path.join(d, "drv_%s%s%s" % (cc, o, "san" if extra else ""))
            rr = subprocess.run([cc, o, "-std=gnu89", "-w"] + extra + ["-I", os.path.join(ctx.repo, "w2c2"), "-I", d, drv, cfile, "-o", exe, "-lm"], capture_output=True)
            if rr.returncode != 0:
                facts.append(("%s %s builds the boundary-input driver for %s" % (cc, o, pm.modname), False, rr.stderr.decode(errors="replace")[:300]))
                continue
            rx = subprocess.run([exe], capture_output=True, timeout=300)
            outs[(cc, o, bool(extra))] = (rx.returncode, rx.stdout, rx.stderr.decode(errors="replace")[-300:])
        ref = outs.get(("gcc", "-O0", False))
        for k, v in outs.items():
            facts.append(("%s: %s %s%s prints the same results as gcc -O0 on the boundary-input grid (%d lines) and exits cleanly" % (pm.modname, k[0], k[1], " +ASan/UBSan" if k[2] else "", len(v[1].splitlines())),
                          ref is not None and v[0] == 0 and v[1] == ref[1], v[2]))
    return facts


def make_jobs(ctx):
    jobs = []
    # UB-freedom obligations on the runtime macros (both trap-stub modes are covered: the stub ends the path) and on generated code
    jobs += rjobs(ctx, c01.r_ops(), ["wasm_int.h"], "R.int", variant="plain", ub_checks=True)
    jobs += rjobs(ctx, c02.r_ops(), ["wasm_int.h", "wasm_float.h"], "R.flt", variant="plain", ub_checks=True)
    jobs += c02.conv_jobs(ctx, "R.flt")
    pmi, pmf = build_modules(ctx)
    jobs += pmi.jobs(ctx, ["wasm_int.h", "libm_markers.h"], "G.int", ub_checks=True)
    jobs += pmf.jobs(ctx, ["wasm_int.h", "wasm_float.h", "libm_markers.h"], "G.flt", ub_checks=True)
    pm3 = c03.build(ctx, "c11cf", 8)
    j3 = pm3.jobs(ctx, ["wasm_int.h", "libm_markers.h"], "G.cf", ub_checks=True)
    for j in j3:
        j.min_canaries = 1
    jobs += j3
    jobs += expr_jobs(ctx, ["signed_infix", "shl", "shr_u", "shr_s"])
    # the bulk-memory helpers of the runtime header: memmove semantics for overlapping ranges (memcpy on overlapping objects is undefined behaviour), bounds
    from . import c05
    jobs += [j for j in c05.make_jobs(ctx) if j.name in ("R.wasmMemoryCopy", "R.wasmMemoryFill", "R.load_data")]
    from ..elayer import ejob
    for nlen in (1, 2, 3):   # the same identifier text in declarations and uses, for every byte value of a name (else the generated C does not compile)
        jobs.append(ejob(ctx, "E.names_escape.len%d" % nlen, "e_names.c", "h_escape", ["c.c:wasmCWriteFileEscaped", "c.c:wasmCWriteStringEscaped"], defines=["NLEN=%d" % nlen],
                         flags=["--unwind", "12", "--unwinding-assertions"], native_src=["array.c", "opcode.c", "instruction.c", "valuetype.c", "sha1.c", "export.c", "debug.c", "section.c"],
                         bounded="names of %d bytes, every byte value symbolic (the escapers look at the current and the previous byte only)" % nlen))
    for j in jobs:
        j.info["ub_obligations"] = "signed overflow, undefined shift, division by zero, pointer overflow, bounds, pointer validity (CBMC built-in properties of this run)"
    s = Job("S.compilers", src=None, solver="static", funcs=["gcc 12 / clang 14 on generated C"], bounded="supporting static facts and a boundary-input differential run; not the deciding step",
            info=dict(layer="static/bounded", static_cmd="gcc|clang -std=gnu89|default -fsyntax-only -pedantic-errors; {gcc,clang} x {-O0,-O3} + ASan/UBSan driver"))
    s.static_fn = compile_matrix
    jobs.append(s)
    return jobs


META = dict(
    level="proof",
    trusted_base=["CBMC 6.11: its built-in undefined-behaviour properties (signed overflow, shifts, division, pointer arithmetic, bounds, pointer validity) on every instruction of the verified functions",
                  "C compilers translate well-defined C correctly: then identical results across compilers and -O levels FOLLOW from UB-freedom (the differential run is corroboration only)",
                  "unsigned<->signed conversions are implementation-defined, not undefined, and are deliberately not flagged"],
    assumptions=["E/S emitter contracts: array.c's growth step enters through the contract stub of harness/e_expr.c (discharged on the real array.c by job A.ensure_capacity.4, realloc/calloc being CBMC's library models); stack heights <= 2^24, label stacks <= 2^16; the string builder is the ghost recorder (its real implementation is under contract in C10); operand-stack entries hold valid value types (validated module)", "program shapes: per-opcode probes + control-flow shapes (enumerated); all inputs symbolic, including trapping ones (the trap stub ends the path before any guarded operation)"],
    explanation="Every runtime macro wrapper and every generated probe function is proved free of undefined behaviour for all inputs together with its functional contract; "
                "declared-type facts (every slot/local declared with an initialiser where wasm requires zero) are visible to CBMC as nondeterministic reads otherwise. "
                "Compilers: syntax acceptance in gnu89/default dialects and a boundary-grid differential run.",
)

CLAIM = dict(
    category="proof",
    text="For all inputs, CBMC discharges its undefined-behaviour properties on the real runtime macros and on the C generated for every integer and float opcode and for the "
         "control-flow shapes, in the same runs that prove their functional contracts (an uninitialised local or a missing guard changes a proved value or raises a UB property). "
         "Compiler acceptance and cross-compiler/-O agreement are supporting facts measured on the generated probes.",
    note="Assumes compilers are correct on well-defined C; program shapes enumerated; CBMC's conversion check is used on the TRUNC macros only, restricted to float->integer casts and with the exactly representable signed minimum excluded (known false alarm there). Alignment and effective-type (aliasing) rules are outside CBMC: covered only by the bounded compiler/sanitizer matrix (memory module with odd addresses and type-punned store/load pairs).",
    technique="CBMC undefined-behaviour obligations on runtime macros and w2c2-generated C, all inputs; compiler matrix as supporting static facts",
)
