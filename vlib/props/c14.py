"""C14 - WASI path operations act on the resolved path; directory listings are complete."""
from ..wasi import wasi_job


def make_jobs(ctx):
    src = "c14_path.c"
    jobs = []
    # unbounded: real PATH_MAX, directory and path strings of every length (library contracts for strlen / memcpy; resolvePath has no loop of its own)
    jobs.append(wasi_job(ctx, "W.resolvePath.unbounded", "c14_resolve_u.c", "h_resolve_u", ["wasi.c:resolvePath"], defines=["GMEM=8"], unwind=4, solver="z3", timeout=900,
                         info=dict(note="PATH_MAX = 4096 (the host's value); directory length 1..8192, path length 0..12288, every byte value; ghost position G in the result")))
    pms = [16, 24] + ([32] if ctx.tier == "thorough" else [])
    for pm in pms:
        jobs.append(wasi_job(ctx, "W.resolvePath.pm%d" % pm, src, "h_resolve", ["wasi.c:resolvePath"], defines=["VH_PATH_MAX=%d" % pm, "GMEM=8"],
                             unwind=2 * pm + 4, timeout=(1100 if pm == 32 else None),
                             bounded="PATH_MAX redefined to %d (code uniform in the macro); directory strings 1..PATH_MAX-1, guest paths 0..2*PATH_MAX bytes, all byte values" % pm))
    B = "PATH_MAX = 16, guest paths <= 12 bytes, descriptor paths <= 3 characters, guest memory object of 48 bytes"
    for h, fn in (("h_create_directory", "path_create_directory"), ("h_remove_directory", "path_remove_directory"), ("h_unlink_file", "path_unlink_file"),
                  ("h_readlink", "path_readlink")):
        jobs.append(wasi_job(ctx, "W." + fn, src, h, ["wasi.c:" + fn, "wasi.c:resolvePath"], defines=["GMEM=48"], unwind=50, bounded=B))
    for abi, defs in (("p1", []), ("un", ["ABI_UNSTABLE"])):
        jobs.append(wasi_job(ctx, "W.path_filestat_get." + abi, src, "h_path_filestat", ["wasi.c:path_filestat_get", "wasi.c:wasiPathFilestatGet"],
                             defines=["GMEM=80"] + defs, unwind=82, bounded=B))
    B2 = "PATH_MAX = 16, guest paths <= 8 bytes, table view of <= 4 entries, descriptor paths <= 3 characters"
    jobs.append(wasi_job(ctx, "W.path_rename", src, "h_rename", ["wasi.c:path_rename", "wasi.c:wasiPathRename"], defines=["GMEM=32"], unwind=34, bounded=B2))
    jobs.append(wasi_job(ctx, "W.path_symlink", src, "h_symlink", ["wasi.c:path_symlink", "wasi.c:wasiPathSymlink"], defines=["GMEM=32"], unwind=34, bounded=B2))
    jobs.append(wasi_job(ctx, "W.path_symlink.long_target", src, "h_symlink", ["wasi.c:path_symlink", "wasi.c:wasiPathSymlink"], defines=["GMEM=32", "VH_PATH_MAX=8", "L1MAX=10", "L2MAX=3"], unwind=34,
                         bounded="PATH_MAX = 8, link targets of 0..10 bytes (so: shorter than, exactly, and longer than PATH_MAX), link paths <= 3 bytes"))
    jobs.append(wasi_job(ctx, "W.fd_readdir", src, "h_readdir", ["wasi.c:fd_readdir", "wasi.c:wasiFDReaddir"], defines=["GMEM=56"], unwind=58,
                         unwindset="wasiFDReaddir.0:5,h_readdir.3:5", timeout=(1200 if ctx.tier == "thorough" else 400),
                         bounded="ghost directory of <= 3 entries (names 1..3 bytes, any inode, type in {reg,dir,lnk,chr,blk}), buffer 0..40 bytes, every cookie in 0..count"))
    # the error code a failing path operation reports is the WASI name of the host's errno (table contract of wasiErrno; shared with C12)
    jobs.append(wasi_job(ctx, "W.errno", "c12_io.c", "h_errno", ["wasi.c:wasiErrno"]))
    return jobs


META = dict(
    level="model_checking",
    trusted_base=["library contracts of strlen (length of the NUL-terminated directory string) and memcpy (n readable / n writable bytes, copies them) in W.resolvePath.unbounded; z3 4.8.12", "CBMC 6.11 (bounds checks on exact-size objects are the 'never reads past the guest path / never writes past its buffers' clause), minisat",
                  "env/posix_model.h incl. the ghost directory stream (telldir cookie of entry i = i+1; seekdir/readdir consistent with it)",
                  "spec/wasi_spec.h: spec_resolve, dirent layout (d_next u64 @0, d_ino u64 @8, d_namlen u32 @16, d_type u8 @20, name after 24 bytes)",
                  "'every entry exactly once across calls' = the per-call contract (delivery from the cookie position onward) + induction over the cookie (paper)"],
    assumptions=["path operations: PATH_MAX in {16, 24} (32 in the thorough tier): parametric-bounded; resolvePath itself: real PATH_MAX, all lengths (z3)", "<= 3 directory entries, names <= 3 bytes"],
    explanation="resolvePath for all directory/guest-path strings, every path-taking entry point (resolved path, exactly the corresponding host call, errno), "
                "fd_readdir against a ghost directory stream for all buffer sizes and cookies.",
)

CLAIM = dict(
    category="model_checking",
    text="resolvePath is discharged for the host's real PATH_MAX (4096) and directory / guest-path strings of EVERY length (strlen and memcpy enter through library contracts; ghost position in the result buffer). The remaining checks are bounded (PATH_MAX re-defined to 16/24, <= 3 directory entries) but complete within bounds, all unwinding assertions discharged: contracts on resolvePath (accept/reject exactly by fit, NUL termination, no read past the unterminated guest path, no write past the buffer) for "
         "all strings at PATH_MAX 16/24, on mkdir/rmdir/unlink/rename/symlink/readlink/stat entry points (operation, resolved arguments, mode, errno), and "
         "on fd_readdir (record layout, truncation, resumption from any returned cookie, restart at cookie 0) against a ghost directory stream.",
    note="Only resolvePath is unbounded; for the path operations PATH_MAX is re-defined small (code uniform in it); directory stream <= 3 entries; POSIX is a recording model; completeness across calls by induction over the cookie.",
    technique="CBMC assume/assert contracts on wasi.c against a recording POSIX model with a ghost directory stream",
)
