"""Layer G: probe modules are encoded on every run, translated by the w2c2 binary built from the
repo's working tree, and each exported generated C function is verified by CBMC (together with the
real w2c2_base.h) against a contract taken from the WebAssembly specification (spec/*.h)."""
import os, re
from . import wasm as W
from .core import Job, Undecided, native_replay_generic, VERIF

CT = W.CTYPE


class Probe:
    def __init__(self, name, params, result, body, spec=None, trap=None, locals_=(), requires=(),
                 post=(), solver="sat", globals_used=(), pre_stmts=(), funcs=(), flags=(), bounded=None,
                 timeout=None, wasm_desc="", eq="bits"):
        self.eq = eq
        self.name = name            # alnum only
        self.params = list(params)  # wasm value types
        self.result = result        # wasm value type or None
        self.body = body
        self.spec = spec            # C expr over a0.. giving expected result (same C type as result)
        self.trap = trap            # C expr giving SPEC_* trap verdict, or None
        self.locals = list(locals_)
        self.requires = list(requires)
        self.post = list(post)      # [(cexpr, obligation name)]
        self.solver = solver
        self.pre_stmts = list(pre_stmts)
        self.funcs = list(funcs)
        self.flags = list(flags)
        self.bounded = bounded
        self.timeout = timeout
        self.wasm_desc = wasm_desc


def feq(t, a, b):
    """NaN where the spec yields NaN, bit-identical otherwise"""
    if t == W.F32:
        return "SPEC_FEQ32(%s, %s)" % (a, b)
    if t == W.F64:
        return "SPEC_FEQ64(%s, %s)" % (a, b)
    return "((%s) == (%s))" % (a, b)


def bits_eq(t, a, b):
    if t == W.F32:
        return "(vh_f32bits(%s) == vh_f32bits(%s))" % (a, b)
    if t == W.F64:
        return "(vh_f64bits(%s) == vh_f64bits(%s))" % (a, b)
    return "((%s) == (%s))" % (a, b)


class ProbeModule:
    """A module of probe functions sharing mutable globals gI32,gI64,gF32,gF64 (indices 0..3)."""

    def __init__(self, modname, memory=None):
        self.modname = modname
        self.m = W.Module()
        self.probes = []
        self.pre_includes = []
        self.decls = []
        self.g = {}
        for i, t in enumerate((W.I32, W.I64, W.F32, W.F64)):
            self.g[t] = self.m.global_(t, True, W.const_expr(t, 0))
        if memory:
            self.m.memory(*memory)

    def add(self, p, split_nan=False):
        assert re.match(r"^[A-Za-z0-9]+$", p.name), p.name
        self.m.func(p.params, [p.result] if p.result is not None else [], p.body, locals_=p.locals, export=p.name)
        p.func_name = p.name
        if split_nan and p.eq == "feq" and p.result in (W.F32, W.F64):
            # two harnesses for the same generated function: non-NaN case and NaN case (solver tractability)
            import copy
            n = "32" if p.result == W.F32 else "64"
            nanexpr = "spec_isnan%s(spec_f%s_bits(%s))" % (n, n, p.spec)
            pv, pn = copy.copy(p), copy.copy(p)
            pv.name, pn.name = p.name + "v", p.name + "n"
            pv.requires = list(p.requires) + ["!" + nanexpr]
            pn.requires = list(p.requires) + [nanexpr]
            self.probes += [pv, pn]
        else:
            self.probes.append(p)

    def harness_text(self, spec_includes):
        mod = self.modname
        out = ['#include "vh.h"']
        if self.pre_includes:
            out.append('#include "w2c2_base.h"')
            out.append('#include "wasm_int.h"')
            out.append('#include "trapstub.h"')
            out += ['#include "%s"' % h for h in self.pre_includes]
        out.append('#include "%s.c"' % mod)
        for h in spec_includes:
            out.append('#include "%s"' % h)
        out.append('#include "trapstub.h"')
        out.append("static %sInstance inst;" % mod)
        out += self.decls
        out += getattr(self, "extra_text", [])
        for p in self.probes:
            if getattr(p, "harness_override", None):
                out.append(p.harness_override)
                continue
            out.append("void h_%s(void) {" % p.name)
            for i, t in enumerate(p.params):
                out.append("  ND(%s, a%d);" % (CT[t], i))
            if p.result is not None:
                out.append("  %s r;" % CT[p.result])
            for s in p.pre_stmts:
                out.append("  " + s)
            for rq in p.requires:
                out.append("  ASSUME(%s);" % rq)
            out.append("  g_spec_trap = %s;" % (p.trap or "SPEC_NOTRAP"))
            args = "".join(", a%d" % i for i in range(len(p.params)))
            call = "%s_%s(&inst%s)" % (mod, getattr(p, "func_name", p.name), args)
            out.append("  %s%s;" % ("r = " if p.result is not None else "", call))
            out.append('  OBL(g_spec_trap == SPEC_NOTRAP, "%s: returned normally only if the specification does not trap");' % p.name)
            if p.spec is not None:
                if p.eq == "feq" and p.result in (W.F32, W.F64):
                    n = "32" if p.result == W.F32 else "64"
                    out.append("  { %s s_ = %s;" % (CT[p.result], p.spec))
                    out.append('  OBL(spec_isnan%s(spec_f%s_bits(s_)) || spec_f%s_bits(r) == spec_f%s_bits(s_), "%s: a non-NaN specified result is delivered bit-exactly");' % (n, n, n, n, p.name))
                    out.append('  OBL(!spec_isnan%s(spec_f%s_bits(s_)) || spec_isnan%s(spec_f%s_bits(r)), "%s: the result is a NaN where the specification yields a NaN"); }' % (n, n, n, n, p.name))
                else:
                    out.append('  OBL(%s, "%s: result equals the specified value");' % (bits_eq(p.result, "r", p.spec), p.name))
            for ce, nm in p.post:
                out.append('  OBL(%s, "%s: %s");' % (ce, p.name, nm))
            out.append('  CANARY("%s returns");' % p.name)
            out.append("}")
        return "\n".join(out) + "\n"

    def jobs(self, ctx, spec_includes, prefix, opts=(), safety=True, ub_checks=False, extra_flags=(), defines=()):
        wasm_bytes = self.m.encode()
        d, r = ctx.translate(wasm_bytes, self.modname, opts)
        if d is None:
            from .core import rejected_job
            return [rejected_job("%s.translate.%s" % (prefix, self.modname), self.modname, r, wasm_bytes.hex())]
        hpath = os.path.join(d, "gh_%s.c" % self.modname)
        with open(hpath, "w") as f:
            f.write(self.harness_text(spec_includes))
        jobs = []
        for p in self.probes:
            def replay(ctx_, job, prop, vals):
                return native_replay_generic(ctx_, job, prop, vals)
            j = Job(name="%s.%s" % (prefix, p.name), src=hpath, entry="h_" + p.name,
                    includes=[d, os.path.join(ctx.repo, "w2c2")], solver=p.solver, safety=safety, ub_checks=ub_checks,
                    flags=list(extra_flags) + p.flags, funcs=["generated:%s_%s" % (self.modname, p.name)] + p.funcs,
                    min_canaries=2 if p.trap else 1, replay=replay, bounded=p.bounded, timeout=p.timeout, defines=defines,
                    info=dict(layer="G", generated_c=os.path.join(d, self.modname + ".c"), wasm=p.wasm_desc, module_hex=wasm_bytes.hex() if len(wasm_bytes) < 4000 else "(%d bytes)" % len(wasm_bytes),
                              w2c2_opts=list(opts)))
            jobs.append(j)
        return jobs


def lg(i):
    return ("local.get", i)


def operator_contexts(base, op_instr, ptypes, rtype, spec_fn, trap_fn=None, solver="sat", contexts=(0, 1, 2), gmap=None,
                      wasm_name="", eq="bits", libm=None, extra_post=(), timeout=None):
    """Three stack contexts for one operator:
       c0: operands at height 0;
       c1: under two values of other types (i64/f32 or i32/f64) that must survive (checked via globals);
       c2: a third value of the result type below, consumed together with the result by xor
           (ints) / checked via reinterpret+xor (floats)."""
    n = len(ptypes)
    res = []
    aargs = ", ".join("a%d" % i for i in range(n))
    spec = "%s(%s)" % (spec_fn, aargs) if spec_fn else None
    trap = "%s(%s)" % (trap_fn, aargs) if trap_fn else None
    fbits = {W.F32: "vh_f32bits", W.F64: "vh_f64bits", W.I32: "", W.I64: ""}
    lpost = list(extra_post)
    pre = ["g_libm_calls = 0;"]
    if libm:
        b = ["%s(a%d)" % (fbits[ptypes[i]], i) for i in range(n)] + ["0"]
        lpost.append(("LIBM_USED_EXACTLY(%s, %s, %s, LRET)" % (libm, b[0], b[1]),
                      "exactly one call of the specified libm function on the operands' bits, result passed on bit-identically"))
    else:
        lpost.append(("g_libm_calls == 0", "no library call is involved"))
    opb = op_instr if isinstance(op_instr, (bytes, bytearray)) else W.ins(op_instr)
    if 0 in contexts:
        body = b"".join(W.ins("local.get", i) for i in range(n)) + opb
        res.append(Probe(base + "c0", ptypes, rtype, body, spec=spec, trap=trap, solver=solver, eq=eq, pre_stmts=pre, timeout=timeout,
                         post=[(c.replace("LRET", "%s(r)" % fbits[rtype]), nm) for c, nm in lpost],
                         wasm_desc="(%s (local.get 0..%d))" % (wasm_name, n - 1)))
    if 1 in contexts:
        # extra values below: e0 (I64 unless an operand is i64-only.. always mixed), e1 (F32)
        e0t, e1t = (W.I64, W.F32) if rtype != W.I64 else (W.I32, W.F64)
        params = list(ptypes) + [e0t, e1t]
        tmp = len(params)
        body = W.ins("local.get", n) + W.ins("local.get", n + 1) + \
            b"".join(W.ins("local.get", i) for i in range(n)) + opb + \
            W.ins("local.set", tmp) + W.ins("global.set", gmap[e1t]) + W.ins("global.set", gmap[e0t]) + W.ins("local.get", tmp)
        post = [(bits_eq(e0t, "inst.g%d" % gmap[e0t], "a%d" % n), "value two below the operands survives"),
                (bits_eq(e1t, "inst.g%d" % gmap[e1t], "a%d" % (n + 1)), "value directly below the operands survives")]
        post += [(c.replace("LRET", "%s(r)" % fbits[rtype]), nm) for c, nm in lpost]
        res.append(Probe(base + "c1", params, rtype, body, spec=spec, trap=trap, locals_=[(1, rtype)], post=post, eq=eq, pre_stmts=pre,
                         solver=solver, timeout=timeout, wasm_desc="e0 e1 (%s ..) local.set; global.set; global.set" % wasm_name))
    if 2 in contexts:
        if rtype in (W.I32, W.I64):
            params = list(ptypes) + [rtype]
            xor = "i32.xor" if rtype == W.I32 else "i64.xor"
            body = W.ins("local.get", n) + b"".join(W.ins("local.get", i) for i in range(n)) + opb + W.ins(xor)
            spec2 = "(a%d ^ %s)" % (n, spec)
            res.append(Probe(base + "c2", params, rtype, body, spec=spec2, trap=trap, solver=solver, pre_stmts=pre, timeout=timeout,
                             post=[(c, nm) for c, nm in lpost if "LRET" not in c],
                             wasm_desc="(xor c (%s ..))" % wasm_name))
        else:
            it = W.I32 if rtype == W.F32 else W.I64
            params = list(ptypes) + [it]
            rein = "i32.reinterpret_f32" if rtype == W.F32 else "i64.reinterpret_f64"
            xor = "i32.xor" if it == W.I32 else "i64.xor"
            body = W.ins("local.get", n) + b"".join(W.ins("local.get", i) for i in range(n)) + opb + W.ins(rein) + W.ins(xor)
            fb = "vh_f32bits" if rtype == W.F32 else "vh_f64bits"
            if libm:
                spec2 = "(a%d ^ g_libm_ret)" % n
                req = []
                lp = [(c.replace("LRET", "g_libm_ret"), nm) for c, nm in lpost]
            else:
                spec2 = "(a%d ^ %s(%s))" % (n, fb, spec)
                req = ["!%s(%s(%s))" % ("spec_isnan32" if rtype == W.F32 else "spec_isnan64", fb, spec)] if eq == "feq" else []
                lp = lpost
            res.append(Probe(base + "c2", params, it, body, spec=spec2, trap=trap, solver=solver, pre_stmts=pre, post=lp, requires=req, timeout=timeout,
                             wasm_desc="(xor c (reinterpret (%s ..)))" % wasm_name))
    return res
