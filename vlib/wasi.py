"""Shared job construction for the wasi.c harnesses (C12-C15)."""
import os, re
from .core import Job, VERIF, native_replay_generic

H = os.path.join(VERIF, "harness")
WASI_DEFS = ["HAS_UNISTD=1", "HAS_SYSUIO=1", "HAS_SYSTIME=1", "HAS_SYSRESOURCE=1", "HAS_STRNDUP=0", "HAS_FCNTL=1", "HAS_LSTAT=1",
             "HAS_GETENTROPY=1", "HAS_TIMESPEC=1", "WASM_THREADS_PTHREADS"]


def entries(src):
    return re.findall(r"^void (h_\w+)\(void\)", open(src).read(), re.M) + \
        ["h_dead_" + m for m in re.findall(r"^DEAD\(\w+, (\w+),", open(src).read(), re.M)] + \
        ["h_dead_nopath_" + m for m in re.findall(r"^NOPATH\(\w+, (\w+),", open(src).read(), re.M)]


def wasi_job(ctx, name, src, entry, funcs, defines=(), **kw):
    inc = [os.path.join(ctx.repo, "wasi"), os.path.join(ctx.repo, "w2c2"), H]
    kw.setdefault("replay", lambda c, j, p, v: native_replay_generic(c, j, p, v))
    # string loops (strlen/strcpy/strcat models, copy loops of wasi.c) are bounded by PATH_MAX / GMEM, which the
    # harnesses fix to small constants; complete unwinding is asserted
    us = kw.pop("unwindset", None)
    kw["flags"] = list(kw.get("flags", [])) + ["--unwind", str(kw.pop("unwind", 100)), "--unwinding-assertions"] + \
        (["--unwindset", us] if us else [])
    return Job(name, os.path.join(H, src), entry=entry, includes=inc, defines=WASI_DEFS + list(defines), funcs=funcs, **kw)
