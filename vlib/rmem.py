"""Layer R, memory access functions of w2c2_base.h (plain and atomic loads/stores, rmw, cmpxchg).
Hybrid contract (DESIGN.md 2.2 / section 1.3 "Form 1/2"): the harness owns the memory object and states
pre/postcondition with ASSUME/OBL (dual mode: the same text is replayed natively), the frame is a
__CPROVER_assigns carrier enforced on the REAL static inline function by goto-instrument --dfcc."""
import os
from .core import Job, native_replay_generic
from .rlayer import header_variant

MEMSZ = 32

# name, result C type, width, signed, kind
PLAIN_LOADS = [
    ("i32_load", "U32", 4, False, "int"), ("i64_load", "U64", 8, False, "int"),
    ("f32_load", "F32", 4, False, "f32"), ("f64_load", "F64", 8, False, "f64"),
    ("i32_load8_s", "U32", 1, True, "int"), ("i64_load8_s", "U64", 1, True, "int"),
    ("i32_load8_u", "U32", 1, False, "int"), ("i64_load8_u", "U64", 1, False, "int"),
    ("i32_load16_s", "U32", 2, True, "int"), ("i64_load16_s", "U64", 2, True, "int"),
    ("i32_load16_u", "U32", 2, False, "int"), ("i64_load16_u", "U64", 2, False, "int"),
    ("i64_load32_s", "U64", 4, True, "int"), ("i64_load32_u", "U64", 4, False, "int"),
]
PLAIN_STORES = [
    ("i32_store", "U32", 4, "int"), ("i64_store", "U64", 8, "int"), ("f32_store", "F32", 4, "f32"), ("f64_store", "F64", 8, "f64"),
    ("i32_store8", "U32", 1, "int"), ("i32_store16", "U32", 2, "int"), ("i64_store8", "U64", 1, "int"),
    ("i64_store16", "U64", 2, "int"), ("i64_store32", "U64", 4, "int"),
]
ATOMIC_LOADS = [
    ("i32_atomic_load8_u", "U32", 1), ("i64_atomic_load8_u", "U64", 1), ("i32_atomic_load16_u", "U32", 2),
    ("i64_atomic_load16_u", "U64", 2), ("i64_atomic_load32_u", "U64", 4), ("i32_atomic_load", "U32", 4), ("i64_atomic_load", "U64", 8),
]
ATOMIC_STORES = [
    ("i32_atomic_store", "U32", 4), ("i64_atomic_store", "U64", 8), ("i32_atomic_store8", "U32", 1), ("i32_atomic_store16", "U32", 2),
    ("i64_atomic_store8", "U64", 1), ("i64_atomic_store16", "U64", 2), ("i64_atomic_store32", "U64", 4),
]
RMW_FORMS = [("i32_atomic_rmw8_%s_u", "U32", 1), ("i32_atomic_rmw16_%s_u", "U32", 2), ("i32_atomic_rmw_%s", "U32", 4),
             ("i64_atomic_rmw8_%s_u", "U64", 1), ("i64_atomic_rmw16_%s_u", "U64", 2), ("i64_atomic_rmw32_%s_u", "U64", 4),
             ("i64_atomic_rmw_%s", "U64", 8)]
RMW_OPS = ["add", "sub", "and", "or", "xor", "xchg"]


def _prelude(natural_align=False, w=1):
    s = ["  ND_ARR(U8, data, MEMSZ);", "  U8 old[MEMSZ];", "  wasmMemory mem;", "  ND(U64, addr);", "  ND(U64, k);",
         "  ND(U32, m_size); ND(U32, m_pages); ND(U32, m_max);",
         "  mem.data = data; mem.size = m_size; mem.pages = m_pages; mem.maxPages = m_max; mem.shared = 0; mem.futex = 0; mem.futexFree = 0;",
         "  ASSUME(k < MEMSZ);", "  ASSUME(addr <= MEMSZ - %d);" % w]
    if natural_align:
        s.append("  ASSUME(addr %% %d == 0);" % w)
    s.append("  memcpy(old, data, MEMSZ);")
    return s


def _frame_obls(name):
    return ['  OBL(mem.data == data && mem.size == m_size && mem.pages == m_pages && mem.maxPages == m_max, "%s: the memory descriptor is unchanged");' % name]


def emit(kinds, be_mutex=False):
    out = (['#include "mutex_monitor.h"'] if be_mutex else []) + ['#include "w2c2_base.h"', '#include "vh.h"', '#include "wasm_int.h"', '#include "wasm_mem.h"',
           '#include "trapstub.h"', "#define MEMSZ %d" % MEMSZ]
    jobs = []

    def carrier(name, ret, params, assigns):
        out.append("#ifndef VERIF_NATIVE")
        out.append("%s c_%s(%s) __CPROVER_requires(1) __CPROVER_ensures(1) __CPROVER_assigns(%s);" % (ret, name, params, assigns))
        out.append("#endif")

    if "plain_loads" in kinds:
        for name, rt, w, sg, kind in PLAIN_LOADS:
            carrier(name, rt, "wasmMemory* mem, U64 addr", "")
            out.append("void h_%s(void) {" % name)
            out += _prelude(w=w)
            out.append("  %s r = %s(&mem, addr);" % (rt, name))
            v = "spec_le_read(old, addr, %d)" % w
            if sg:
                v = "spec_sext(%s, %d)" % (v, w)
            if kind == "f32":
                out.append('  OBL(vh_f32bits(r) == (U32)%s, "%s: result is the little-endian composition of the addressed bytes");' % (v, name))
            elif kind == "f64":
                out.append('  OBL(vh_f64bits(r) == %s, "%s: result is the little-endian composition of the addressed bytes");' % (v, name))
            else:
                out.append('  OBL(r == (%s)%s, "%s: result is the %s-extended little-endian composition of the addressed bytes");' % (rt, v, name, "sign" if sg else "zero"))
            out.append('  OBL(data[k] == old[k], "%s: memory is unchanged");' % name)
            out += _frame_obls(name)
            out.append('  CANARY("%s returns");' % name)
            out.append("}")
            jobs.append((name, w))
    if "plain_stores" in kinds:
        for name, vt, w, kind in PLAIN_STORES:
            carrier(name, "void", "wasmMemory* mem, U64 addr, %s value" % vt, "__CPROVER_object_upto(mem->data + addr, %d)" % w)
            out.append("void h_%s(void) {" % name)
            out += _prelude(w=w)
            out.append("  ND(%s, value);" % vt)
            out.append("  %s(&mem, addr, value);" % name)
            bits = {"int": "(U64)value", "f32": "(U64)vh_f32bits(value)", "f64": "vh_f64bits(value)"}[kind]
            out.append('  OBL(data[k] == spec_after_store(k, addr, %d, %s, old[k]), "%s: exactly the %d little-endian bytes of the wrapped value are written, every other byte is unchanged");' % (w, bits, name, w))
            out += _frame_obls(name)
            out.append('  CANARY("%s returns");' % name)
            out.append("}")
            jobs.append((name, w))
    if "atomic_loads" in kinds:
        for name, rt, w in ATOMIC_LOADS:
            carrier(name, rt, "wasmMemory* mem, U64 addr", "")
            out.append("void h_%s(void) {" % name)
            out += _prelude(natural_align=True, w=w)
            out.append("  %s r = %s(&mem, addr);" % (rt, name))
            out.append('  OBL(r == (%s)spec_le_read(old, addr, %d), "%s: result is the zero-extended little-endian value of the cell");' % (rt, w, name))
            out.append('  OBL(data[k] == old[k], "%s: memory is unchanged");' % name)
            out += _frame_obls(name)
            out.append('  CANARY("%s returns");' % name)
            out.append("}")
            jobs.append((name, w))
    if "atomic_stores" in kinds:
        for name, vt, w in ATOMIC_STORES:
            carrier(name, "void", "wasmMemory* mem, U64 addr, %s value" % vt, "__CPROVER_object_upto(mem->data + addr, %d)" % w)
            out.append("void h_%s(void) {" % name)
            out += _prelude(natural_align=True, w=w)
            out.append("  ND(%s, value);" % vt)
            out.append("  %s(&mem, addr, value);" % name)
            out.append('  OBL(data[k] == spec_after_store(k, addr, %d, (U64)value, old[k]), "%s: exactly the %d little-endian bytes of the wrapped value are written");' % (w, name, w))
            out += _frame_obls(name)
            out.append('  CANARY("%s returns");' % name)
            out.append("}")
            jobs.append((name, w))
    if "rmw" in kinds:
        for op in RMW_OPS:
            for form, t, w in RMW_FORMS:
                name = form % op
                extra = ", mem->mutex_held" if be_mutex else ""
                carrier(name, t, "wasmMemory* mem, U64 addr, %s value" % t, "__CPROVER_object_upto(mem->data + addr, %d)%s" % (w, ", g_mutex_held, g_mutex_locks, __CPROVER_object_whole(mem->data), __CPROVER_object_whole(g_mon_old)" if be_mutex else ""))
                out.append("void h_%s(void) {" % name)
                out += _prelude(natural_align=True, w=w)
                out.append("  ND(%s, value);" % t)
                if be_mutex:
                    out.append("  g_mutex_held = 0; g_mutex_locks = 0; mem.shared = 1; g_mon_data = data; g_mon_old = old; g_mon_len = MEMSZ;")
                out.append("  %s r = %s(&mem, addr, value);" % (t, name))
                out.append("  { U64 oldv = spec_le_read(old, addr, %d);" % w)
                out.append('  OBL(r == (%s)oldv, "%s: returns the zero-extended old value");' % (t, name))
                out.append('  OBL(data[k] == spec_after_store(k, addr, %d, spec_rmw(SPEC_RMW_%s, oldv, spec_wrap((U64)value, %d), %d), old[k]), "%s: memory holds the wrapped new value in little-endian order, every other byte unchanged"); }' % (w, op.upper(), w, w, name))
                if be_mutex:
                    out.append('  OBL(g_mutex_held == 0 && g_mutex_locks == 1, "%s: the memory mutex is taken exactly once and released on return");' % name)
                out += _frame_obls(name)
                out.append('  CANARY("%s returns");' % name)
                out.append("}")
                jobs.append((name, w))
    if "cmpxchg" in kinds:
        for form, t, w in RMW_FORMS:
            name = form % "cmpxchg"
            carrier(name, t, "wasmMemory* mem, U64 addr, %s expected, %s replacement" % (t, t), "__CPROVER_object_upto(mem->data + addr, %d)%s" % (w, ", g_mutex_held, g_mutex_locks, __CPROVER_object_whole(mem->data), __CPROVER_object_whole(g_mon_old)" if be_mutex else ""))
            out.append("void h_%s(void) {" % name)
            out += _prelude(natural_align=True, w=w)
            out.append("  ND(%s, expected); ND(%s, replacement);" % (t, t))
            if be_mutex:
                out.append("  g_mutex_held = 0; g_mutex_locks = 0; mem.shared = 1; g_mon_data = data; g_mon_old = old; g_mon_len = MEMSZ;")
            out.append("  %s r = %s(&mem, addr, expected, replacement);" % (t, name))
            out.append("  { U64 oldv = spec_le_read(old, addr, %d); int hit = (oldv == spec_wrap((U64)expected, %d));" % (w, w))
            out.append('  OBL(r == (%s)oldv, "%s: returns the zero-extended old value");' % (t, name))
            out.append('  OBL(data[k] == (hit ? spec_after_store(k, addr, %d, spec_wrap((U64)replacement, %d), old[k]) : old[k]), "%s: the wrapped replacement is written iff the old value equals the wrapped expected value"); }' % (w, w, name))
            if be_mutex:
                out.append('  OBL(g_mutex_held == 0 && g_mutex_locks == 1, "%s: the memory mutex is taken exactly once and released on return");' % name)
            out += _frame_obls(name)
            out.append('  CANARY("%s returns");' % name)
            out.append("}")
            jobs.append((name, w))
    return "\n".join(out) + "\n", jobs


def jobs(ctx, kinds, prefix, variant="plain", big_endian=False, defines=(), be_mutex=False, ub_checks=False):
    inc = header_variant(ctx, variant)
    text, names = emit(kinds, be_mutex=be_mutex)
    d = os.path.dirname(ctx.path("rmem", prefix.replace("/", "_"), "x"))
    path = os.path.join(d, "rmem.c")
    with open(path, "w") as f:
        f.write(text)
    res = []
    for name, w in names:
        res.append(Job(name="%s.%s" % (prefix, name), src=path, entry="h_" + name, includes=[inc], defines=list(defines),
                       enforce=[(name, "c_" + name)], big_endian=big_endian, funcs=["w2c2_base.h:" + name],
                       replay=(None if big_endian else (lambda c, j, p, v: native_replay_generic(c, j, p, v))),
                       ub_checks=ub_checks,
                       info=dict(layer="R", header_variant=variant, memory_object_bytes=MEMSZ, big_endian_model=big_endian)))
    return res
