"""Core of the /verif machinery: job description, CBMC pipeline, result triage,
known findings, replay dispatch, evidence writer.  See DESIGN.md section 2."""
import concurrent.futures as cf
import json, os, re, resource, shutil, subprocess, sys, time, hashlib

VERIF = os.path.dirname(os.path.dirname(os.path.abspath(__file__)))


class Undecided(Exception):
    pass


class Ctx:
    def __init__(self, prop, tier, seed, repo=None, keep=False, jobs_filter=None):
        self.prop = prop
        self.tier = tier
        self.seed = seed
        self.repo = os.path.abspath(repo or os.environ.get("VERIF_REPO", "/repo"))
        base = os.environ.get("VERIF_TMP", os.path.join(VERIF, ".work"))
        self.work = os.path.join(base, "%s-%d" % (prop, os.getpid()))
        self.keep = keep
        self.jobs_filter = jobs_filter
        self.ncpu = int(os.environ.get("VERIF_JOBS", str(max(2, (os.cpu_count() or 4)))))
        os.makedirs(self.work, exist_ok=True)
        self._w2c2 = None
        self.t0 = time.time()
        self.notes = []

    def path(self, *p):
        d = os.path.join(self.work, *p)
        os.makedirs(os.path.dirname(d), exist_ok=True)
        return d

    def cleanup(self):
        if not self.keep:
            shutil.rmtree(self.work, ignore_errors=True)

    # ---------------------------------------------------------------- build of the real translator
    W2C2_DEFS = ["-DHAS_PTHREAD=1", "-DHAS_UNISTD=1", "-DHAS_GETOPT=1", "-DHAS_LIBGEN=1",
                 "-DHAS_STRDUP=1", "-DHAS_GLOB=1"]

    def w2c2(self):
        """Build the real w2c2 binary from the repo's working tree (once per run)."""
        if self._w2c2:
            return self._w2c2
        bdir = self.path("w2c2bin", "x")
        bdir = os.path.dirname(bdir)
        srcdir = os.path.join(self.repo, "w2c2")
        srcs = [f for f in sorted(os.listdir(srcdir)) if f.endswith(".c")
                and f != "test.c" and not f.endswith("_test.c")]
        objs = []
        procs = []
        for f in srcs:
            o = os.path.join(bdir, f[:-2] + ".o")
            objs.append(o)
            procs.append((f, subprocess.Popen(
                ["gcc", "-std=gnu90", "-O1", "-g", "-w", "-DW2C2_VERIF=1"] + self.W2C2_DEFS + ["-c", os.path.join(srcdir, f), "-o", o],
                stdout=subprocess.PIPE, stderr=subprocess.STDOUT)))
        for f, p in procs:
            out, _ = p.communicate()
            if p.returncode != 0:
                raise Undecided("build of w2c2 failed in %s:\n%s" % (f, out.decode(errors="replace")[-2000:]))
        exe = os.path.join(bdir, "w2c2")
        r = subprocess.run(["gcc", "-o", exe] + objs + ["-lpthread", "-lm"], capture_output=True)
        if r.returncode != 0:
            raise Undecided("link of w2c2 failed:\n" + r.stderr.decode()[-2000:])
        self._w2c2 = exe
        return exe

    def translate(self, wasm_bytes, name, opts=()):
        """Translate a module with the freshly built w2c2. Returns (dir, cfile, hfile)."""
        exe = self.w2c2()
        # one directory per (module name, option set): two translations of the same module name must never overwrite each other
        key = name + ("" if not opts else "__" + re.sub(r"[^A-Za-z0-9]+", "_", " ".join(opts)))
        d = self.path("gen", key, "x")
        d = os.path.dirname(d)
        if not hasattr(self, "_translated"):
            self._translated = {}
        if self._translated.setdefault(key, bytes(wasm_bytes)) != bytes(wasm_bytes):
            raise RuntimeError("two different modules translated under the same name and options: %s" % key)
        wpath = os.path.join(d, name + ".wasm")
        with open(wpath, "wb") as f:
            f.write(wasm_bytes)
        cpath = os.path.join(d, name + ".c")
        # fresh heap memory handed to the translator is filled with 0xA5 (glibc MALLOC_PERTURB_): state the reader forgets to initialise shows up
        r = subprocess.run([exe] + list(opts) + [wpath, cpath], capture_output=True, timeout=60, cwd=d, env=dict(os.environ, MALLOC_PERTURB_="165"))
        if r.returncode != 0 or not os.path.exists(cpath):
            return None, r
        return d, r


class Job:
    """One CBMC run = one group of proof obligations on one function (or one generated function)."""

    def __init__(self, name, src, entry="harness", defines=(), includes=(), enforce=(), replace=(),
                 loop_contracts=False, flags=(), solver="sat", safety=True, big_endian=False,
                 timeout=None, bounded=None, funcs=(), min_canaries=1, replay=None, info=None,
                 malloc_may_fail=False, object_bits=None, extra_src=(), ub_checks=False,
                 nondet_static=False):
        self.name = name
        self.src = src
        self.entry = entry
        self.defines = list(defines)
        self.includes = list(includes)
        self.enforce = list(enforce)
        self.replace = list(replace)
        self.loop_contracts = loop_contracts
        self.flags = list(flags)
        self.solver = solver
        self.safety = safety
        self.ub_checks = ub_checks
        self.big_endian = big_endian
        self.timeout = timeout
        self.bounded = bounded
        self.funcs = list(funcs)
        self.min_canaries = min_canaries
        self.replay = replay
        self.info = info or {}
        self.malloc_may_fail = malloc_may_fail
        self.object_bits = object_bits
        self.extra_src = list(extra_src)
        self.nondet_static = nondet_static
        # results
        self.status = None          # 'ok' | 'fail' | 'undecided'
        self.reason = ""
        self.props = []             # list of dict(name, description, status, line, file)
        self.failed = []
        self.canaries_failed = 0
        self.seconds = 0.0
        self.cmds = []
        self.log = ""
        self.trace = None


def _limit():
    try:
        lim = int(os.environ.get("VERIF_MEM_GB", "10")) * (1 << 30)
        resource.setrlimit(resource.RLIMIT_AS, (lim, lim))
    except Exception:
        pass


def _run(cmd, timeout, cwd=None):
    t = time.time()
    # own process group, so that a timeout also kills the solver processes cbmc has spawned (z3, cvc5)
    # temporary files of cbmc / the SMT solvers go into the job's own directory (removed with the work directory), not into /tmp: a solver that is
    # killed on timeout leaves its problem file behind
    env = dict(os.environ, TMPDIR=cwd) if cwd else None
    p = subprocess.Popen(cmd, stdout=subprocess.PIPE, stderr=subprocess.STDOUT, cwd=cwd, preexec_fn=_limit,
                         start_new_session=True, env=env)
    try:
        out, _ = p.communicate(timeout=timeout)
        return p.returncode, out.decode(errors="replace"), time.time() - t
    except subprocess.TimeoutExpired:
        try:
            os.killpg(p.pid, 9)
        except Exception:
            pass
        try:
            out, _ = p.communicate(timeout=10)
        except Exception:
            out = b""
        return -999, (out or b"").decode(errors="replace"), time.time() - t


SAFETY_FLAGS = ["--bounds-check", "--pointer-check", "--pointer-primitive-check"]
UB_FLAGS = ["--signed-overflow-check", "--undefined-shift-check", "--div-by-zero-check",
            "--pointer-overflow-check"]


def run_job(ctx, job):
    if getattr(job, "static_fn", None):
        t = time.time()
        try:
            res = job.static_fn(ctx, job)     # list of (description, ok, detail)
        except Undecided as e:
            job.status, job.reason = "undecided", str(e)
            return job
        for desc, ok, detail in res:
            p = dict(name="static", description="OBL " + desc, status="SUCCESS" if ok else "FAILURE", line=None, file=None,
                     function=None, canary=False, detail=detail)
            if not ok:
                p["trace"] = None
                job.failed.append(p)
            job.props.append(p)
        job.canaries_failed = 1
        job.seconds = time.time() - t
        job.cmds.append(job.info.get("static_cmd", "static check"))
        job.status = "fail" if job.failed else ("ok" if job.props else "undecided")
        if not job.props:
            job.reason = "static check produced no facts"
        return job
    d = ctx.path("jobs", re.sub(r"[^A-Za-z0-9_.-]", "_", job.name), "x")
    d = os.path.dirname(d)
    default_to = 300 if ctx.tier == "quick" else 1200
    timeout = job.timeout or default_to
    gb1 = os.path.join(d, "a.gb")
    gb2 = os.path.join(d, "b.gb")
    incs = []
    for i in job.includes:
        incs += ["-I", i]
    incs += ["-I", os.path.join(VERIF, "include"), "-I", os.path.join(VERIF, "spec"),
             "-I", os.path.join(VERIF, "contracts"), "-I", os.path.join(VERIF, "env")]
    defs = ["-DVERIF_CBMC=1"] + ["-D" + x for x in job.defines]
    cc = ["goto-cc", "--function", job.entry] + (["--big-endian"] if job.big_endian else []) + \
        defs + incs + [job.src] + job.extra_src + ["-o", gb1]
    job.cmds.append(" ".join(cc))
    rc, out, s = _run(cc, 300, cwd=d)
    job.seconds += s
    job.log += out
    if rc != 0:
        # the harness did not compile.  If the translator's OUTPUT is at fault - gcc itself rejects the generated C file (compiled alone against
        # the runtime header) - this is a violation in its own right: code that does not compile does not behave as specified.  Anything else
        # (a harness that no longer fits the code) is a tool limit.
        gen = job.info.get("generated_c")
        if gen and os.path.exists(gen):
            gcc = ["gcc", "-std=gnu89", "-fsyntax-only", "-w"] + ["-D" + x for x in job.defines if x.startswith("WASM_")] + \
                  ["-I", os.path.join(ctx.repo, "w2c2"), "-I", os.path.dirname(gen), gen]
            rc2, out2, _ = _run(gcc, 120, cwd=d)
            if rc2 != 0:
                p = dict(name="generated-c-compiles", description="OBL the C file the translator generated for this probe module is accepted by gcc -std=gnu89 (with the runtime header)",
                         status="FAILURE", line=None, file=gen, function=None, canary=False, trace=None, detail=out2[-1500:])
                job.props.append(p); job.failed.append(p); job.cmds.append(" ".join(gcc))
                job.status = "fail"
                return job
        job.status, job.reason = "undecided", "goto-cc failed (rc=%d): %s" % (rc, out[-1500:])
        return job
    binf = gb1
    if job.enforce or job.replace or job.loop_contracts or job.nondet_static:
        if job.enforce or job.replace or job.loop_contracts:
            # the C library models (memcpy, memset, ...) must be present before dfcc instruments the program,
            # otherwise calls to them are turned into "undefined function should be unreachable"
            gb0 = os.path.join(d, "a0.gb")
            al = ["goto-instrument", "--add-library", gb1, gb0]
            job.cmds.append(" ".join(al))
            rc, out, s = _run(al, 300, cwd=d)
            job.seconds += s
            if rc != 0:
                job.status, job.reason = "undecided", "goto-instrument --add-library failed: %s" % out[-800:]
                return job
            gb1 = gb0
        gi = ["goto-instrument"]
        if job.enforce or job.replace or job.loop_contracts:
            gi += ["--dfcc", job.entry]
            for f, c in job.enforce:
                gi += ["--enforce-contract", "%s/%s" % (f, c) if c else f]
            for f, c in job.replace:
                gi += ["--replace-call-with-contract", "%s/%s" % (f, c) if c else f]
            if job.loop_contracts:
                gi += ["--apply-loop-contracts"]
        if job.nondet_static:
            gi += ["--nondet-static"]
        gi += [gb1, gb2]
        job.cmds.append(" ".join(gi))
        rc, out, s = _run(gi, 600, cwd=d)
        job.seconds += s
        job.log += out
        if rc != 0:
            job.status, job.reason = "undecided", "goto-instrument failed (rc=%d): %s" % (rc, out[-1500:])
            return job
        binf = gb2
    cb = ["cbmc", binf, "--json-ui", "--trace", "--function", job.entry] if False else \
         ["cbmc", binf, "--json-ui", "--trace", "--drop-unused-functions", "--slice-formula"]
    if job.big_endian:
        cb += ["--big-endian"]
    if job.safety:
        cb += SAFETY_FLAGS
    if job.ub_checks:
        cb += UB_FLAGS
    if not job.malloc_may_fail:
        cb += ["--no-malloc-may-fail"]
    cb += ["--object-bits", str(job.object_bits or 12)]
    if job.solver == "z3":
        cb += ["--z3"]
    elif job.solver == "cvc5":
        cb += ["--cvc5"]
    cb += job.flags
    job.cmds.append(" ".join(cb))
    rc, out, s = _run(cb, timeout, cwd=d)
    job.seconds += s
    with open(os.path.join(d, "cbmc.json"), "w") as f:
        f.write(out)
    if rc == -999:
        job.status, job.reason = "undecided", "cbmc timeout after %ds" % timeout
        return job
    try:
        doc = json.loads(out)
    except Exception:
        job.status, job.reason = "undecided", "cbmc output not JSON (rc=%d): %s" % (rc, out[-1500:])
        return job
    results = None
    msgs = []
    for el in doc:
        if "result" in el:
            results = el["result"]
        if "messageText" in el:
            msgs.append(el["messageText"])
    alltext = "\n".join(msgs)
    job.log += alltext
    if results is None:
        job.status, job.reason = "undecided", "no result block from cbmc (rc=%d): %s" % (rc, alltext[-1500:])
        return job
    for bad in ("ignoring forall", "ignoring exists", "Parse Error", "SMT2 solver returned error"):
        if bad in alltext:
            job.status, job.reason = "undecided", "cbmc log contains '%s'" % bad
            return job
    m = re.findall(r"no body for function (\S+)", alltext)
    nobody = sorted(set(m) - set(job.info.get("allow_no_body", [])))
    if nobody:
        job.status, job.reason = "undecided", "no body for function(s): %s" % ",".join(nobody)
        return job
    unknown = []
    drop = job.info.get("drop_props")
    for r in results:
        desc = r.get("description", "")
        if drop and re.search(drop, desc):
            continue
        loc = r.get("sourceLocation", {})
        p = dict(name=r.get("property", ""), description=desc, status=r.get("status", ""),
                 line=loc.get("line"), file=loc.get("file"), function=loc.get("function"))
        if "canary" in desc:
            if p["status"] == "FAILURE":
                job.canaries_failed += 1
            p["canary"] = True
        else:
            p["canary"] = False
            if p["status"] == "FAILURE" and "TOOL-LIMIT" in desc:
                # an ENV model met something it does not model (e.g. an unknown printf format): nothing is known about the code -> undecided, never a violation
                p["status"] = "TOOL-LIMIT"
                unknown.append(p)
            elif p["status"] == "FAILURE":
                p["trace"] = r.get("trace")
                job.failed.append(p)
            elif p["status"] != "SUCCESS":
                unknown.append(p)
        job.props.append(p)
    n = len([p for p in job.props if not p["canary"]])
    if any(p["status"] == "TOOL-LIMIT" for p in unknown):
        job.failed = []
        job.status, job.reason = "undecided", "model limit reached: %s" % [p["description"] for p in unknown if p["status"] == "TOOL-LIMIT"][0]
    elif job.failed:
        job.status = "fail"       # UNKNOWN statuses next to a FAILURE are its consequences (CBMC assumes a failed check afterwards)
    elif unknown:
        job.status, job.reason = "undecided", "property %s status %s" % (unknown[0]["name"], unknown[0]["status"])
    elif n == 0:
        job.status, job.reason = "undecided", "zero obligations generated"
    elif job.canaries_failed < job.min_canaries:
        job.status, job.reason = "undecided", ("vacuity: only %d of >=%d reachability canaries failed "
                                               "(precondition unsatisfiable or call does not return)"
                                               % (job.canaries_failed, job.min_canaries))
    else:
        job.status = "ok"
    if job.loop_contracts and job.status == "ok":
        if not any("loop invariant" in p["description"].lower() or "loop_invariant" in p["name"] for p in job.props):
            job.status, job.reason = "undecided", "loop contract silently dropped (no loop_invariant obligations)"
    return job


def obligation_id(job, p):
    """Stable identifier of a failing obligation: job name + description without volatile parts."""
    desc = re.sub(r"\s+", " ", p["description"]).strip()
    desc = re.sub(r"contract::", "", desc)
    return "%s :: %s" % (job.name, desc)


# -------------------------------------------------------------------------- trace helpers
def trace_values(trace, functions=None):
    """Collect the last assigned value of every scalar lhs in the trace (optionally only in given
    functions). Returns dict lhs -> dict(data, binary, width, type)."""
    vals = {}
    counts = {}
    if not trace:
        return vals
    for st in trace:
        if st.get("stepType") != "assignment":
            continue
        fn = st.get("sourceLocation", {}).get("function")
        if functions and fn not in functions and st.get("assignmentType") != "actual-parameter":
            continue
        lhs = st.get("lhs")
        v = st.get("value", {})
        if lhs is None:
            continue
        _flatten(lhs, v, vals, st.get("assignmentType"), fn)
        # k-th assignment of a scalar of this name (ENV model functions are called several times)
        if "binary" in v and "[" not in lhs and "." not in lhs:
            k = counts.get(lhs, 0)
            counts[lhs] = k + 1
            vals["%s#%d" % (lhs, k)] = vals[lhs]
    return vals


def _flatten(lhs, v, vals, atype, fn):
    if "binary" in v:
        vals[lhs] = dict(data=v.get("data"), binary=v["binary"], width=v.get("width"), type=v.get("type"),
                         kind=atype, function=fn)
    elif v.get("name") == "array" and "elements" in v:
        for e in v["elements"]:
            idx = e.get("index")
            _flatten("%s[%s]" % (lhs, idx), e.get("value", {}), vals, atype, fn)
    elif v.get("name") == "struct" and "members" in v:
        for mbr in v["members"]:
            _flatten("%s.%s" % (lhs, mbr.get("name")), mbr.get("value", {}), vals, atype, fn)
    elif "data" in v:
        vals[lhs] = dict(data=v.get("data"), binary=None, width=v.get("width"), type=v.get("type"),
                         kind=atype, function=fn)


def bits_of(val):
    if val is None:
        return None
    if val.get("binary"):
        return int(val["binary"], 2)
    try:
        return int(val["data"])
    except Exception:
        return None


# -------------------------------------------------------------------------- known findings
def load_known(prop):
    known, fixed = [], []
    p = os.path.join(VERIF, "known_findings.txt")
    if not os.path.exists(p):
        return known, fixed
    for line in open(p):
        line = line.strip()
        if not line or line.startswith("#"):
            continue
        if line.startswith("fixed:"):
            fixed.append(line)
            continue
        m = re.match(r"finding:\s*property=(\S+)\s+obligation=\{(.*?)\}\s*(.*)$", line)
        if m and m.group(1) == prop:
            known.append(dict(obligation=m.group(2), what=m.group(3)))
    return known, fixed


# -------------------------------------------------------------------------- driver
def native_replay_generic(ctx, job, p, vals, extra_cflags=()):
    """Compile the same harness natively (vh.h in VERIF_NATIVE mode) with the counterexample's
    values for the harness' ND() variables and run it against the real code."""
    d = ctx.path("replay", re.sub(r"[^A-Za-z0-9_.-]", "_", job.name), "x")
    d = os.path.dirname(d)
    tab = os.path.join(d, "vh_values.c")
    with open(tab, "w") as f:
        f.write('#include "vh.h"\nconst struct vh_value vh_values[] = {\n')
        for k, v in vals.items():
            b = bits_of(v)
            if b is None:
                continue
            f.write('  {"%s", 0x%xULL},\n' % (k.replace('"', ''), b & ((1 << 64) - 1)))
        f.write('  {0, 0}\n};\n')
    exe = os.path.join(d, "replay")
    incs = []
    for i in job.includes:
        incs += ["-I", i]
    incs += ["-I", os.path.join(VERIF, "include"), "-I", os.path.join(VERIF, "spec"),
             "-I", os.path.join(VERIF, "contracts"), "-I", os.path.join(VERIF, "env")]
    cmd = ["gcc", "-std=gnu11", "-O1", "-g", "-w", "-fsanitize=address,undefined", "-fno-sanitize-recover=undefined",
           "-DVERIF_NATIVE=1", "-DVH_ENTRY=" + job.entry] + \
        ["-D" + x for x in job.defines] + incs + list(extra_cflags) + \
        [job.src] + job.extra_src + [tab, os.path.join(VERIF, "include", "vh_native.c"), "-o", exe, "-lm", "-lpthread"]
    r = subprocess.run(cmd, capture_output=True)
    if r.returncode != 0:
        return False, "native build failed:\n" + r.stderr.decode(errors="replace")[-3000:], cmd
    try:
        rr = subprocess.run([exe], capture_output=True, timeout=60, cwd=d, env=dict(os.environ, ASAN_OPTIONS="detect_leaks=0"))   # harness objects are not freed: leaks are not findings
        out = rr.stdout.decode(errors="replace") + rr.stderr.decode(errors="replace")
        rc = rr.returncode
    except subprocess.TimeoutExpired:
        out, rc = "native replay timed out", -1
    reproduced = ("NATIVE-FAIL" in out) or ("AddressSanitizer" in out) or ("runtime error" in out) or rc < 0 or rc >= 128
    return reproduced, "exit=%s\n%s" % (rc, out[-4000:]), cmd


def run_property(ctx, make_jobs, meta):
    """meta: dict(level, trusted_base, assumptions, functions (opt), explanation)"""
    t0 = time.time()
    prop = ctx.prop
    try:
        jobs = make_jobs(ctx)
    except Undecided as e:
        print("UNDECIDED property=%s %s" % (prop, e))
        return 2
    if ctx.jobs_filter:
        jobs = [j for j in jobs if re.search(ctx.jobs_filter, j.name)]
    names = [j.name for j in jobs]
    assert len(names) == len(set(names)), "duplicate job names: %s" % [n for n in names if names.count(n) > 1]
    # longest first
    jobs.sort(key=lambda j: -(j.timeout or 0))
    with cf.ThreadPoolExecutor(max_workers=ctx.ncpu) as ex:
        list(ex.map(lambda j: run_job(ctx, j), jobs))
    if os.environ.get("VERIF_VERBOSE"):
        for j in sorted(jobs, key=lambda j: -j.seconds)[:25]:
            print("  %-40s %-9s %6.1fs props=%d" % (j.name, j.status, j.seconds, len(j.props)))
    known, fixed = load_known(prop)
    undecided = [j for j in jobs if j.status == "undecided"]
    violations = []
    known_hits = []
    for j in jobs:
        if j.status != "fail":
            continue
        for p in j.failed:
            oid = obligation_id(j, p)
            k = [x for x in known if x["obligation"] == oid]
            if k:
                known_hits.append((oid, k[0]["what"]))
            else:
                violations.append((j, p, oid))
    for oid, what in sorted(set(known_hits)):
        print("KNOWN-FINDING: property=%s %s [%s]" % (prop, what, oid))
    # obligations accounting
    n_obl = n_dis = n_b_obl = n_b_dis = 0
    backends = {}
    funcs = set()
    samples = []
    bounded_list = []
    for j in jobs:
        kf = set(o for o, _w in known_hits)
        k = [p for p in j.props if not p["canary"] and obligation_id(j, p) not in kf]
        ok = [p for p in k if p["status"] == "SUCCESS"]
        be = {"sat": "cbmc/minisat", "z3": "cbmc/z3", "cvc5": "cbmc/cvc5", "static": "static fact (gcc -E / text)"}[j.solver]
        b = backends.setdefault(be, dict(jobs=0, obligations=0, discharged=0, solver_seconds=0.0))
        b["jobs"] += 1
        b["obligations"] += len(k)
        b["discharged"] += len(ok)
        b["solver_seconds"] = round(b["solver_seconds"] + j.seconds, 2)
        if j.bounded:
            n_b_obl += len(k)
            n_b_dis += len(ok)
            bounded_list.append(dict(job=j.name, bound=j.bounded, obligations=len(k), discharged=len(ok)))
        else:
            n_obl += len(k)
            n_dis += len(ok)
        funcs.update(j.funcs)
        if len(samples) < 6 and k:
            named = [p for p in k if p["description"].startswith("OBL") or "ensures" in p["description"]] or k
            samples.append(dict(job=j.name, functions=j.funcs, mode=("dfcc-contract" if j.enforce else "assume/assert harness"),
                                obligation=named[0]["description"], status=named[0]["status"],
                                cbmc=j.cmds[-1] if j.cmds else "", seconds=round(j.seconds, 2)))
    rc = 0
    replay_paths = []
    if violations:
        rc = 1
        os.makedirs(os.path.join(VERIF, "replay", prop), exist_ok=True)
        seen_jobs = {}
        for j, p, oid in violations:
            fn = re.sub(r"[^A-Za-z0-9_.-]", "_", j.name)
            path = os.path.join(VERIF, "replay", prop, fn + ".json")
            rec = seen_jobs.get(j.name)
            if rec is None:
                vals = trace_values(p.get("trace"))
                reproduced, native_out, cmd = False, "no replay driver for this harness", None
                try:
                    if getattr(j, "static_fn", None) and j.info.get("layer", "").startswith("bounded"):
                        # the failing fact IS a run of the real, freshly built code on a concrete input (recorded in the detail)
                        reproduced, native_out, cmd = True, "\n".join("%s\n   %s" % (q["description"], q.get("detail", "")) for q in j.failed)[:6000], [j.info.get("static_cmd", "run of the built binary")]
                    elif j.replay:
                        reproduced, native_out, cmd = j.replay(ctx, j, p, vals)
                except Exception as e:  # replay machinery must never mask the violation
                    reproduced, native_out = False, "replay driver error: %r" % (e,)
                rec = dict(property=prop, job=j.name, functions=j.funcs, failed_obligations=[], cbmc_cmds=j.cmds,
                           counterexample={k: (v.get("data"), hex(bits_of(v)) if bits_of(v) is not None else None)
                                           for k, v in vals.items() if not k.startswith("__CPROVER")
                                           and "$" not in k and "#" not in k and "!" not in k},
                           native_replay=dict(reproduced=reproduced, cmd=" ".join(cmd) if cmd else None, output=native_out),
                           info=j.info)
                seen_jobs[j.name] = rec
                rec["_path"] = path
            rec["failed_obligations"].append(dict(obligation=oid, cbmc_property=p["name"], line=p["line"], file=p["file"], detail=p.get("detail")))
        for name, rec in seen_jobs.items():
            path = rec.pop("_path")
            try:  # keep the harness text next to the replay record (the work directory is removed)
                jj = [j for j in jobs if j.name == name][0]
                shutil.copy(jj.src, path[:-5] + ".harness.c")
                rec["harness_source"] = path[:-5] + ".harness.c"
            except Exception:
                pass
            with open(path, "w") as f:
                json.dump(rec, f, indent=1, default=str)
            tail = "" if rec["native_replay"]["reproduced"] else " no-failing-input-found"
            for fo in rec["failed_obligations"][:3]:
                print("  failed obligation: %s" % fo["obligation"])
            print("VIOLATION property=%s replay=%s%s" % (prop, path, tail))
            replay_paths.append(path)
    if undecided and rc == 0:
        rc = 2
    for j in undecided:
        print("UNDECIDED property=%s job=%s: %s" % (prop, j.name, j.reason[:600]))
    wall = time.time() - t0
    n_known = len(set(known_hits))
    level = meta.get("level", "proof")
    if n_obl == 0 and n_b_obl > 0 and level == "proof":
        level = "model_checking"      # every obligation of this run is a bounded stand-in: not reported as proof
    ev = dict(
        property_id=prop, tier=ctx.tier, seed=ctx.seed, level=level,
        coverage=dict(
            obligations=n_obl, discharged=n_dis,
            evaluations=len(jobs), distinct_nontrivial=n_dis + n_b_dis,
            rule="one evaluation = one CBMC run on one harness/contract (function under contract x variant); distinct_nontrivial = number of distinct "
                 "non-canary proof obligations discharged in those runs (unbounded + bounded, counted by the driver from CBMC's result list)",
            checker_cmd="goto-cc | goto-instrument --dfcc --enforce-contract [...] | cbmc (see samples[].cbmc); driver: ./check %s --tier %s" % (prop, ctx.tier),
            trusted_base=meta.get("trusted_base", []),
            functions_under_contract=sorted(funcs),
            jobs=len(jobs), backends=backends,
            bounded_obligations=dict(obligations=n_b_obl, discharged=n_b_dis, jobs=bounded_list[:80]),
            canaries_failed_as_required=sum(j.canaries_failed for j in jobs),
            known_findings_hit=n_known,
            undecided_jobs=[j.name for j in undecided],
            samples=samples,
            explanation=meta.get("explanation", ""),
            notes=ctx.notes,
        ),
        assumptions=meta.get("assumptions", []),
        wall_s=round(wall, 2),
        violations=len(violations),
    )
    ev["coverage"].update(meta.get("extra_coverage", {}))
    # evidence describes /repo itself; a run against another tree (--repo, mutation self-tests) or a development run
    # restricted with --jobs must not overwrite it
    if ctx.repo == os.path.abspath(os.environ.get("VERIF_REPO", "/repo")) and not ctx.jobs_filter:
        os.makedirs(os.path.join(VERIF, "evidence"), exist_ok=True)
        with open(os.path.join(VERIF, "evidence", prop + ".json"), "w") as f:
            json.dump(ev, f, indent=1)
    slow = sorted(((j.seconds, j.name) for j in jobs if j.seconds > 60), reverse=True)[:8]
    if slow:
        print("slowest jobs: " + ", ".join("%s %.0fs" % (n, s_) for s_, n in slow))
    print("%s property=%s tier=%s jobs=%d obligations=%d discharged=%d bounded=%d/%d known=%d undecided=%d wall=%.1fs"
          % ({0: "OK", 1: "FAIL", 2: "UNDECIDED"}[rc], prop, ctx.tier, len(jobs), n_obl, n_dis, n_b_dis, n_b_obl,
             n_known, len(undecided), wall))
    return rc


def inject_loop_contracts(ctx, relpath, rules, tag):
    """Scratch copy of <repo>/<relpath> with loop-contract clauses inserted after anchored loop headers (CBMC reads loop contracts only from
    the source text).  rules: [(anchor_regex matching the loop header up to and excluding its '{', clause_text)].  Every rule must fire exactly
    once (else Undecided: the code moved and the contract has to be re-anchored - never a violation).  NOTHING is dropped or rewritten: the
    copy differs from the repository file only by the inserted __CPROVER_* clauses.  Returns the directory to put FIRST on the include path."""
    src = os.path.join(ctx.repo, relpath)
    text = open(src).read()
    for anchor, clause in rules:
        ms = list(re.finditer(anchor, text))
        if len(ms) != 1:
            raise Undecided("loop-contract anchor %r matches %d times in %s (must be exactly 1)" % (anchor, len(ms), relpath))
        m = ms[0]
        text = text[:m.end()] + "\n" + clause + "\n" + text[m.end():]
    d = os.path.dirname(ctx.path("inject", tag, "x"))
    with open(os.path.join(d, os.path.basename(relpath)), "w") as f:
        f.write(text)
    return d


def undecided_job(name, reason, funcs=()):
    """A placeholder that reports `reason` as UNDECIDED for one group of jobs (e.g. the translator rejected or crashed on a probe module)
    while the other jobs of the property still run."""
    j = Job(name, src=None, solver="static", funcs=list(funcs))
    def fn(ctx, job, _r=reason):
        raise Undecided(_r)
    j.static_fn = fn
    return j


def rejected_job(name, modname, r, module_hex=""):
    """The translator rejected (or crashed on) a probe module.  The probe modules are valid WebAssembly by construction and are accepted by the translator of
    the unchanged tree, and every listed property is stated "for every valid module": a rejection is reported as a violation of its own,
    with the translator's exit status and message and the module bytes in the replay file."""
    j = Job(name, src=None, solver="static", funcs=["w2c2 binary (reader + code generator) on the probe module %s" % modname])
    def fn(ctx, job, _r=r, _m=modname, _h=module_hex):
        rc = getattr(_r, "returncode", None)
        msg = ((getattr(_r, "stdout", b"") or b"") + (getattr(_r, "stderr", b"") or b"")).decode(errors="replace")[-600:]
        return [("the translator accepts the valid probe module %s (exit status 0)" % _m, False, "exit status %s: %s module_hex=%s" % (rc, msg, _h[:4000]))]
    j.static_fn = fn
    return j
