"""Small WebAssembly binary encoder (spec 5.x) used to build probe modules on every run.
Written from the binary-format chapter of the specification; independent of w2c2's reader."""
import struct

I32, I64, F32, F64 = 0x7F, 0x7E, 0x7D, 0x7C
TNAME = {I32: "i32", I64: "i64", F32: "f32", F64: "f64"}
CTYPE = {I32: "U32", I64: "U64", F32: "F32", F64: "F64"}


def uleb(n):
    assert n >= 0
    out = bytearray()
    while True:
        b = n & 0x7F
        n >>= 7
        if n:
            out.append(b | 0x80)
        else:
            out.append(b)
            return bytes(out)


def uleb_padded(n, length):
    """unsigned LEB128 of n in exactly `length` bytes (redundant padding)"""
    out = bytearray()
    for i in range(length):
        b = n & 0x7F
        n >>= 7
        out.append(b | (0x80 if i < length - 1 else 0))
    assert n == 0
    return bytes(out)


def sleb(n):
    out = bytearray()
    while True:
        b = n & 0x7F
        n >>= 7
        if (n == 0 and not (b & 0x40)) or (n == -1 and (b & 0x40)):
            out.append(b)
            return bytes(out)
        out.append(b | 0x80)


def sleb_padded(n, length, bits):
    out = bytearray()
    n &= (1 << bits) - 1
    if n >> (bits - 1):
        n -= (1 << bits)
    for i in range(length):
        b = n & 0x7F
        n >>= 7
        out.append(b | (0x80 if i < length - 1 else 0))
    return bytes(out)


def vec(items):
    return uleb(len(items)) + b"".join(items)


def name(s):
    b = s.encode("utf-8") if isinstance(s, str) else bytes(s)
    return uleb(len(b)) + b


def functype(params, results):
    return b"\x60" + vec([bytes([p]) for p in params]) + vec([bytes([r]) for r in results])


def limits(mn, mx=None, shared=False):
    if shared:
        return b"\x03" + uleb(mn) + uleb(mx)
    if mx is None:
        return b"\x00" + uleb(mn)
    return b"\x01" + uleb(mn) + uleb(mx)


OPS = {
    "unreachable": 0x00, "nop": 0x01, "block": 0x02, "loop": 0x03, "if": 0x04, "else": 0x05, "end": 0x0B,
    "br": 0x0C, "br_if": 0x0D, "br_table": 0x0E, "return": 0x0F, "call": 0x10, "call_indirect": 0x11,
    "drop": 0x1A, "select": 0x1B, "local.get": 0x20, "local.set": 0x21, "local.tee": 0x22,
    "global.get": 0x23, "global.set": 0x24,
    "i32.load": 0x28, "i64.load": 0x29, "f32.load": 0x2A, "f64.load": 0x2B,
    "i32.load8_s": 0x2C, "i32.load8_u": 0x2D, "i32.load16_s": 0x2E, "i32.load16_u": 0x2F,
    "i64.load8_s": 0x30, "i64.load8_u": 0x31, "i64.load16_s": 0x32, "i64.load16_u": 0x33,
    "i64.load32_s": 0x34, "i64.load32_u": 0x35,
    "i32.store": 0x36, "i64.store": 0x37, "f32.store": 0x38, "f64.store": 0x39,
    "i32.store8": 0x3A, "i32.store16": 0x3B, "i64.store8": 0x3C, "i64.store16": 0x3D, "i64.store32": 0x3E,
    "memory.size": 0x3F, "memory.grow": 0x40,
    "i32.const": 0x41, "i64.const": 0x42, "f32.const": 0x43, "f64.const": 0x44,
    "i32.eqz": 0x45, "i32.eq": 0x46, "i32.ne": 0x47, "i32.lt_s": 0x48, "i32.lt_u": 0x49, "i32.gt_s": 0x4A,
    "i32.gt_u": 0x4B, "i32.le_s": 0x4C, "i32.le_u": 0x4D, "i32.ge_s": 0x4E, "i32.ge_u": 0x4F,
    "i64.eqz": 0x50, "i64.eq": 0x51, "i64.ne": 0x52, "i64.lt_s": 0x53, "i64.lt_u": 0x54, "i64.gt_s": 0x55,
    "i64.gt_u": 0x56, "i64.le_s": 0x57, "i64.le_u": 0x58, "i64.ge_s": 0x59, "i64.ge_u": 0x5A,
    "f32.eq": 0x5B, "f32.ne": 0x5C, "f32.lt": 0x5D, "f32.gt": 0x5E, "f32.le": 0x5F, "f32.ge": 0x60,
    "f64.eq": 0x61, "f64.ne": 0x62, "f64.lt": 0x63, "f64.gt": 0x64, "f64.le": 0x65, "f64.ge": 0x66,
    "i32.clz": 0x67, "i32.ctz": 0x68, "i32.popcnt": 0x69, "i32.add": 0x6A, "i32.sub": 0x6B, "i32.mul": 0x6C,
    "i32.div_s": 0x6D, "i32.div_u": 0x6E, "i32.rem_s": 0x6F, "i32.rem_u": 0x70, "i32.and": 0x71, "i32.or": 0x72,
    "i32.xor": 0x73, "i32.shl": 0x74, "i32.shr_s": 0x75, "i32.shr_u": 0x76, "i32.rotl": 0x77, "i32.rotr": 0x78,
    "i64.clz": 0x79, "i64.ctz": 0x7A, "i64.popcnt": 0x7B, "i64.add": 0x7C, "i64.sub": 0x7D, "i64.mul": 0x7E,
    "i64.div_s": 0x7F, "i64.div_u": 0x80, "i64.rem_s": 0x81, "i64.rem_u": 0x82, "i64.and": 0x83, "i64.or": 0x84,
    "i64.xor": 0x85, "i64.shl": 0x86, "i64.shr_s": 0x87, "i64.shr_u": 0x88, "i64.rotl": 0x89, "i64.rotr": 0x8A,
    "f32.abs": 0x8B, "f32.neg": 0x8C, "f32.ceil": 0x8D, "f32.floor": 0x8E, "f32.trunc": 0x8F, "f32.nearest": 0x90,
    "f32.sqrt": 0x91, "f32.add": 0x92, "f32.sub": 0x93, "f32.mul": 0x94, "f32.div": 0x95, "f32.min": 0x96,
    "f32.max": 0x97, "f32.copysign": 0x98,
    "f64.abs": 0x99, "f64.neg": 0x9A, "f64.ceil": 0x9B, "f64.floor": 0x9C, "f64.trunc": 0x9D, "f64.nearest": 0x9E,
    "f64.sqrt": 0x9F, "f64.add": 0xA0, "f64.sub": 0xA1, "f64.mul": 0xA2, "f64.div": 0xA3, "f64.min": 0xA4,
    "f64.max": 0xA5, "f64.copysign": 0xA6,
    "i32.wrap_i64": 0xA7, "i32.trunc_f32_s": 0xA8, "i32.trunc_f32_u": 0xA9, "i32.trunc_f64_s": 0xAA,
    "i32.trunc_f64_u": 0xAB, "i64.extend_i32_s": 0xAC, "i64.extend_i32_u": 0xAD, "i64.trunc_f32_s": 0xAE,
    "i64.trunc_f32_u": 0xAF, "i64.trunc_f64_s": 0xB0, "i64.trunc_f64_u": 0xB1,
    "f32.convert_i32_s": 0xB2, "f32.convert_i32_u": 0xB3, "f32.convert_i64_s": 0xB4, "f32.convert_i64_u": 0xB5,
    "f32.demote_f64": 0xB6, "f64.convert_i32_s": 0xB7, "f64.convert_i32_u": 0xB8, "f64.convert_i64_s": 0xB9,
    "f64.convert_i64_u": 0xBA, "f64.promote_f32": 0xBB,
    "i32.reinterpret_f32": 0xBC, "i64.reinterpret_f64": 0xBD, "f32.reinterpret_i32": 0xBE, "f64.reinterpret_i64": 0xBF,
    "i32.extend8_s": 0xC0, "i32.extend16_s": 0xC1, "i64.extend8_s": 0xC2, "i64.extend16_s": 0xC3, "i64.extend32_s": 0xC4,
}
# 0xFC prefix
OPS_FC = {
    "i32.trunc_sat_f32_s": 0, "i32.trunc_sat_f32_u": 1, "i32.trunc_sat_f64_s": 2, "i32.trunc_sat_f64_u": 3,
    "i64.trunc_sat_f32_s": 4, "i64.trunc_sat_f32_u": 5, "i64.trunc_sat_f64_s": 6, "i64.trunc_sat_f64_u": 7,
    "memory.init": 8, "data.drop": 9, "memory.copy": 10, "memory.fill": 11,
}
# 0xFE prefix (threads)
OPS_FE = {
    "memory.atomic.notify": 0x00, "memory.atomic.wait32": 0x01, "memory.atomic.wait64": 0x02, "atomic.fence": 0x03,
    "i32.atomic.load": 0x10, "i64.atomic.load": 0x11, "i32.atomic.load8_u": 0x12, "i32.atomic.load16_u": 0x13,
    "i64.atomic.load8_u": 0x14, "i64.atomic.load16_u": 0x15, "i64.atomic.load32_u": 0x16,
    "i32.atomic.store": 0x17, "i64.atomic.store": 0x18, "i32.atomic.store8": 0x19, "i32.atomic.store16": 0x1A,
    "i64.atomic.store8": 0x1B, "i64.atomic.store16": 0x1C, "i64.atomic.store32": 0x1D,
}
_rmw = ["add", "sub", "and", "or", "xor", "xchg", "cmpxchg"]
_rmw_forms = ["i32.atomic.rmw.%s", "i64.atomic.rmw.%s", "i32.atomic.rmw8.%s_u", "i32.atomic.rmw16.%s_u",
              "i64.atomic.rmw8.%s_u", "i64.atomic.rmw16.%s_u", "i64.atomic.rmw32.%s_u"]
for _i, _op in enumerate(_rmw):
    for _j, _f in enumerate(_rmw_forms):
        OPS_FE[_f % _op] = 0x1E + _i * 7 + _j

MEMOPS = {k for k in OPS if ".load" in k or ".store" in k}


def ins(op, *args, **kw):
    """Encode one instruction. Immediates:
       block/loop/if: blocktype (None | valtype);  br/br_if/call/local.*/global.*: index;
       br_table: (list, default); call_indirect: (typeidx, tableidx=0); memops: (align, offset);
       consts: value (ints: python int; floats: raw bit pattern int via bits=)"""
    lebpad = kw.get("pad", 0)

    def u(n):
        return uleb_padded(n, lebpad) if lebpad else uleb(n)
    if op in OPS:
        c = OPS[op]
        b = bytes([c])
        if op in ("block", "loop", "if"):
            bt = args[0] if args else None
            return b + (b"\x40" if bt is None else bytes([bt]))
        if op in ("br", "br_if", "call", "local.get", "local.set", "local.tee", "global.get", "global.set"):
            return b + u(args[0])
        if op == "br_table":
            return b + vec([u(x) for x in args[0]]) + u(args[1])
        if op == "call_indirect":
            return b + u(args[0]) + u(args[1] if len(args) > 1 else 0)
        if op in MEMOPS:
            return b + u(args[0]) + u(args[1])
        if op in ("memory.size", "memory.grow"):
            return b + b"\x00"
        if op == "i32.const":
            v = args[0] & 0xFFFFFFFF
            if v >> 31:
                v -= 1 << 32
            return b + (sleb_padded(v, lebpad, 32) if lebpad else sleb(v))
        if op == "i64.const":
            v = args[0] & 0xFFFFFFFFFFFFFFFF
            if v >> 63:
                v -= 1 << 64
            return b + (sleb_padded(v, lebpad, 64) if lebpad else sleb(v))
        if op == "f32.const":
            return b + struct.pack("<I", args[0] & 0xFFFFFFFF)
        if op == "f64.const":
            return b + struct.pack("<Q", args[0] & 0xFFFFFFFFFFFFFFFF)
        return b
    if op in OPS_FC:
        b = b"\xFC" + uleb(OPS_FC[op])
        if op == "memory.init":
            return b + u(args[0]) + b"\x00"
        if op == "data.drop":
            return b + u(args[0])
        if op == "memory.copy":
            return b + b"\x00\x00"
        if op == "memory.fill":
            return b + b"\x00"
        return b
    if op in OPS_FE:
        b = b"\xFE" + uleb(OPS_FE[op])
        if op == "atomic.fence":
            return b + b"\x00"
        return b + u(args[0]) + u(args[1])
    raise KeyError(op)


def code(*instrs):
    out = b""
    for i in instrs:
        if isinstance(i, (bytes, bytearray)):
            out += bytes(i)
        elif isinstance(i, str):
            out += ins(i)
        else:
            out += ins(*i)
    return out


class Module:
    def __init__(self):
        self.types = []          # bytes of functype
        self.imports = []        # (module, name, desc bytes, kind)
        self.funcs = []          # type index
        self.tables = []
        self.mems = []
        self.globals = []        # (valtype, mutable, init expr bytes)
        self.exports = []        # (name, kind, index)
        self.start = None
        self.elems = []          # raw bytes per segment
        self.codes = []          # (locals [(n,type)], body bytes without final end)
        self.datas = []          # raw bytes per segment
        self.customs = []        # (position-before-section-id or 'end', name, payload)
        self.datacount = False
        self.names = None        # optional name section payload

    def type(self, params, results):
        t = functype(params, results)
        if t in self.types:
            return self.types.index(t)
        self.types.append(t)
        return len(self.types) - 1

    def import_func(self, mod, nm, params, results):
        ti = self.type(params, results)
        assert not self.funcs, "imports must be added before functions"
        self.imports.append((mod, nm, b"\x00" + uleb(ti), 0))
        return len([i for i in self.imports if i[3] == 0]) - 1

    def import_table(self, mod, nm, mn, mx=None):
        self.imports.append((mod, nm, b"\x01\x70" + limits(mn, mx), 1))

    def import_memory(self, mod, nm, mn, mx=None, shared=False):
        self.imports.append((mod, nm, b"\x02" + limits(mn, mx, shared), 2))

    def import_global(self, mod, nm, vt, mutable=False):
        self.imports.append((mod, nm, b"\x03" + bytes([vt, 1 if mutable else 0]), 3))
        return len([i for i in self.imports if i[3] == 3]) - 1

    def nimport(self, kind):
        return len([i for i in self.imports if i[3] == kind])

    def func(self, params, results, body, locals_=(), export=None):
        ti = self.type(params, results)
        self.funcs.append(ti)
        self.codes.append((list(locals_), body))
        idx = self.nimport(0) + len(self.funcs) - 1
        if export:
            self.exports.append((export, 0, idx))
        return idx

    def table(self, mn, mx=None):
        self.tables.append(b"\x70" + limits(mn, mx))

    def memory(self, mn, mx=None, shared=False, export=None):
        self.mems.append(limits(mn, mx, shared))
        if export:
            self.exports.append((export, 2, self.nimport(2) + len(self.mems) - 1))

    def global_(self, vt, mutable, init):
        self.globals.append(bytes([vt, 1 if mutable else 0]) + init + b"\x0B")
        return self.nimport(3) + len(self.globals) - 1

    def elem(self, offset_expr, funcidxs, table=0):
        if table == 0:
            self.elems.append(b"\x00" + offset_expr + b"\x0B" + vec([uleb(i) for i in funcidxs]))
        else:
            self.elems.append(b"\x02" + uleb(table) + offset_expr + b"\x0B\x00" + vec([uleb(i) for i in funcidxs]))

    def data(self, offset_expr, payload, flag=0):
        if flag == 0:
            self.datas.append(b"\x00" + offset_expr + b"\x0B" + uleb(len(payload)) + payload)
        elif flag == 2:
            self.datas.append(b"\x02\x00" + offset_expr + b"\x0B" + uleb(len(payload)) + payload)
        else:
            self.datas.append(b"\x01" + uleb(len(payload)) + payload)

    def custom(self, before, nm, payload):
        self.customs.append((before, nm, payload))

    @staticmethod
    def section(sid, payload, sizepad=0):
        return bytes([sid]) + (uleb_padded(len(payload), sizepad) if sizepad else uleb(len(payload))) + payload

    def encode(self, sizepad=0, countpad=0, omit_empty=True):
        def v(items):
            return (uleb_padded(len(items), countpad) if countpad else uleb(len(items))) + b"".join(items)
        out = b"\x00asm\x01\x00\x00\x00"
        secs = []
        if self.types or not omit_empty:
            secs.append((1, v(self.types)))
        if self.imports or not omit_empty:
            secs.append((2, v([name(m) + name(n) + d for (m, n, d, k) in self.imports])))
        if self.funcs or not omit_empty:
            secs.append((3, v([uleb(t) for t in self.funcs])))
        if self.tables or not omit_empty:
            secs.append((4, v(self.tables)))
        if self.mems or not omit_empty:
            secs.append((5, v(self.mems)))
        if self.globals or not omit_empty:
            secs.append((6, v(self.globals)))
        if self.exports or not omit_empty:
            secs.append((7, v([name(n) + bytes([k]) + uleb(i) for (n, k, i) in self.exports])))
        if self.start is not None:
            secs.append((8, uleb(self.start)))
        if self.elems or not omit_empty:
            secs.append((9, v(self.elems)))
        if self.datacount:
            secs.append((12, uleb(len(self.datas))))
        if self.codes or not omit_empty:
            bodies = []
            for locs, body in self.codes:
                fb = vec([uleb(n) + bytes([t]) for (n, t) in locs]) + body + b"\x0B"
                bodies.append((uleb_padded(len(fb), sizepad) if sizepad else uleb(len(fb))) + fb)
            secs.append((10, v(bodies)))
        if self.datas or not omit_empty:
            secs.append((11, v(self.datas)))
        for sid, payload in secs:
            for (before, nm, pl) in self.customs:
                if before == sid:
                    out += self.section(0, name(nm) + pl, sizepad)
            out += self.section(sid, payload, sizepad)
        for (before, nm, pl) in self.customs:
            if before == "end":
                out += self.section(0, name(nm) + pl, sizepad)
        if self.names is not None:
            out += self.section(0, name("name") + self.names, sizepad)
        return out


def const_expr(vt, value):
    return ins({I32: "i32.const", I64: "i64.const", F32: "f32.const", F64: "f64.const"}[vt], value)
