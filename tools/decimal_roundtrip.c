/* Bounded native stand-in for C07 (NOT a proof): the decimal literal path.
 * The real stringBuilderAppendF32/F64 of the repository produce the text; the text is parsed the way a C compiler
 * treats the emitted token (an unsuffixed literal is a double constant; it is then converted to the slot type).
 * usage: rt quick|full <seed> */
#include <stdio.h>
#include <stdlib.h>
#include <string.h>
#include <stdint.h>
#include "stringbuilder.h"

static int check32(uint32_t b, StringBuilder* sb) {
    float f, g; uint32_t rb;
    if ((b & 0x7f800000u) == 0x7f800000u || b == 0x80000000u) return 1;     /* handled by other literal forms */
    memcpy(&f, &b, 4);
    if (!stringBuilderReset(sb)) return 0;
    if (!stringBuilderAppendF32(sb, f)) return 0;
    g = (float)strtod(sb->string, NULL);                                   /* double constant converted to float */
    memcpy(&rb, &g, 4);
    return rb == b;
}
static int check64(uint64_t b, StringBuilder* sb) {
    double f, g; uint64_t rb;
    if ((b & 0x7ff0000000000000ull) == 0x7ff0000000000000ull || b == 0x8000000000000000ull) return 1;
    memcpy(&f, &b, 8);
    if (!stringBuilderReset(sb)) return 0;
    if (!stringBuilderAppendF64(sb, f)) return 0;
    g = strtod(sb->string, NULL);
    memcpy(&rb, &g, 8);
    return rb == b;
}
/* integers: the text must be the canonical decimal numeral of the value (parsed back with strtoull / strtoll, no leading zeros, no junk) */
static uint64_t rng(uint64_t* s);
static int canon(const char* t) { size_t i = 0; if (t[0] == '-') i = 1; if (t[i] == 0) return 0; if (t[i] == '0' && t[i + 1] != 0) return 0; if (t[0] == '-' && t[1] == '0') return 0;
    for (; t[i]; i++) if (t[i] < '0' || t[i] > '9') return 0; return 1; }
static int checkint(uint64_t v, StringBuilder* sb) { char* e; int ok = 1;
    if (!stringBuilderReset(sb) || !stringBuilderAppendU64(sb, v)) return 0; ok &= canon(sb->string) && strtoull(sb->string, &e, 10) == v && *e == 0;
    if (!stringBuilderReset(sb) || !stringBuilderAppendI64(sb, (int64_t)v)) return 0; ok &= canon(sb->string) && strtoll(sb->string, &e, 10) == (int64_t)v && *e == 0;
    if (!stringBuilderReset(sb) || !stringBuilderAppendU32(sb, (uint32_t)v)) return 0; ok &= canon(sb->string) && strtoull(sb->string, &e, 10) == (uint32_t)v && *e == 0;
    if (!stringBuilderReset(sb) || !stringBuilderAppendI32(sb, (int32_t)(uint32_t)v)) return 0; ok &= canon(sb->string) && strtoll(sb->string, &e, 10) == (int32_t)(uint32_t)v && *e == 0;
    return ok; }
static unsigned long long ints(int full, uint64_t seed, uint64_t* firstbad) { StringBuilder sb = {0}; unsigned long long bad = 0, n, i; uint64_t p = 1, s = seed | 1; int k, a, b;
    static const uint64_t parts[] = {0, 1, 2, 9, 10, 11, 99999999ull, 100000000ull, 100000001ull, 999999999ull, 1000000000ull, 1000000001ull, 123456789ull, 900000000ull, 18ull, 4294967295ull};
    stringBuilderInitialize(&sb);
#define CHK(x) do { uint64_t x_ = (x); if (!checkint(x_, &sb)) { if (!bad) *firstbad = x_; bad++; } if (!checkint(0 - x_, &sb)) { if (!bad) *firstbad = 0 - x_; bad++; } } while (0)
    for (k = 0; k < 20; k++) { CHK(p - 1); CHK(p); CHK(p + 1); CHK(5 * p); if (k < 19) p *= 10; }
    for (a = 0; a < 16; a++) for (b = 0; b < 16; b++) { CHK(parts[a] * 1000000000ull + parts[b]); CHK(parts[a] * 1000000000000000000ull + parts[b]); CHK(parts[a] * 1000000000000000000ull + parts[b] * 1000000000ull + parts[(a + b) & 15]); }
    CHK(0x7fffffffffffffffull); CHK(0x8000000000000000ull); CHK(0xffffffffffffffffull); CHK(0x7fffffffull); CHK(0x80000000ull); CHK(0xffffffffull);
    n = full ? 100000000ull : 1000000ull;
    for (i = 0; i < n; i++) { uint64_t r = rng(&s); CHK(r >> (r & 63)); }
    return bad; }
static uint64_t rng(uint64_t* s) { *s ^= *s << 13; *s ^= *s >> 7; *s ^= *s << 17; return *s; }

int main(int argc, char** argv) {
    int full = argc > 1 && strcmp(argv[1], "full") == 0;
    uint64_t seed = argc > 2 ? strtoull(argv[2], 0, 10) * 2654435761u + 88172645463325252ull : 88172645463325252ull;
    unsigned long long bad32 = 0, bad64 = 0, n32 = 0, n64 = 0;
    uint32_t firstbad32 = 0; uint64_t firstbad64 = 0;
    if (full) {
#pragma omp parallel reduction(+:bad32,n32)
        { StringBuilder sb = {0}; long long i; stringBuilderInitialize(&sb);
#pragma omp for schedule(static)
          for (i = 0; i < 0x100000000ll; i++) { n32++; if (!check32((uint32_t)i, &sb)) { bad32++; firstbad32 = (uint32_t)i; } }
          stringBuilderFree(&sb); }
    } else {
        StringBuilder sb = {0}; uint32_t e; uint64_t s = seed; long i; stringBuilderInitialize(&sb);
        for (e = 0; e < 256; e++) { uint32_t base = e << 23; uint32_t k;                /* every binade: edges and neighbours, both signs */
            for (k = 0; k < 64; k++) { uint32_t v[4]; int j; v[0] = base + k; v[1] = base + 0x7fffff - k; v[2] = v[0] | 0x80000000u; v[3] = v[1] | 0x80000000u;
                for (j = 0; j < 4; j++) { n32++; if (!check32(v[j], &sb)) { bad32++; firstbad32 = v[j]; } } } }
        for (i = 0; i < (1l << 22); i++) { uint32_t v = (uint32_t)rng(&s); n32++; if (!check32(v, &sb)) { bad32++; firstbad32 = v; } }
        stringBuilderFree(&sb);
    }
    { StringBuilder sb = {0}; uint64_t e; uint64_t s = seed ^ 0x9E3779B97F4A7C15ull; long i, N = full ? 100000000l : 1000000l; stringBuilderInitialize(&sb);
      for (e = 0; e < 2047; e++) { uint64_t base = e << 52; uint64_t k;
          for (k = 0; k < 8; k++) { uint64_t v[4]; int j; v[0] = base + k; v[1] = base + 0xfffffffffffffull - k; v[2] = v[0] | (1ull << 63); v[3] = v[1] | (1ull << 63);
              for (j = 0; j < 4; j++) { n64++; if (!check64(v[j], &sb)) { bad64++; firstbad64 = v[j]; } } } }
      for (i = 0; i < N; i++) { uint64_t v = rng(&s); n64++; if (!check64(v, &sb)) { bad64++; firstbad64 = v; } }
      stringBuilderFree(&sb); }
    printf("f32 patterns checked=%llu mismatches=%llu%s\nf64 patterns checked=%llu mismatches=%llu\n", n32, bad32, full ? " (exhaustive)" : "", n64, bad64);
    if (bad32) printf("first f32 mismatch: 0x%08x\n", firstbad32);
    if (bad64) printf("first f64 mismatch: 0x%016llx\n", (unsigned long long)firstbad64);
    { uint64_t fb = 0; unsigned long long badi = ints(full, seed, &fb);
      printf("integer decimal texts: mismatches=%llu\n", badi);
      if (badi) printf("first integer mismatch: %llu (0x%016llx)\n", (unsigned long long)fb, (unsigned long long)fb);
      return (bad32 || bad64 || badi) ? 1 : 0; }
}
