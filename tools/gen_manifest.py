#!/usr/bin/env python3
"""Regenerates MANIFEST.json from the table below (keeps it schema-valid at all times)."""
import json, os, sys
sys.path.insert(0, "/verif")
import importlib
props = [json.loads(l) for l in open("/verif/properties.jsonl")]
CLAIMED = {}
for p in props:
    pid = p["id"]
    if os.path.exists("/verif/vlib/props/%s.py" % pid.lower()):
        mod = importlib.import_module("vlib.props." + pid.lower())
        if getattr(mod, "CLAIM", None):
            CLAIMED[pid] = mod
checks = []
na = []
for p in props:
    pid = p["id"]
    if pid in CLAIMED:
        c = CLAIMED[pid].CLAIM
        checks.append(dict(
            property_id=pid,
            quick_cmd="./check %s --tier quick" % pid,
            thorough_cmd="./check %s --tier thorough" % pid,
            evidence_file="/verif/evidence/%s.json" % pid,
            replay_cmd_template="./check %s --replay {path}" % pid,
            engine="cbmc-contracts",
            level_claimed=dict(category=c.get("category", "proof"), text=c["text"], design_ref=c.get("design_ref", "DESIGN.md section 4, " + pid)),
            level_note=c["note"],
            technique=c.get("technique", "CBMC code contracts (goto-instrument --dfcc) and assume/assert contract harnesses on the real code")))
    else:
        reason = "no check built yet in this round; see DESIGN.md section 4 for the planned contracts"
        f = "/verif/vlib/props/%s.na" % pid.lower()
        if os.path.exists(f):
            reason = open(f).read().strip()
        na.append(dict(property_id=pid, reason=reason))
man = dict(
    version=1,
    setup_cmd="python3 tools/gen_manifest.py --check-tools",
    hooks=dict(guard="W2C2_VERIF", enable="no source hooks are needed: contracts are carrier declarations in /verif attached with goto-instrument --enforce-contract f/carrier; the check builds w2c2 itself with -DW2C2_VERIF=1 (unused by the sources)",
               baseline_off_cmd="cmake -G Ninja -S /repo -B /repo/_build >/dev/null && cmake --build /repo/_build >/dev/null && /repo/_build/w2c2/w2c2_test && /repo/_build/wasi/w2c2wasi_test",
               source_commits=[], add_only=True),
    engines=[dict(name="cbmc-contracts", path="/verif/check", serves_properties=sorted(CLAIMED),
                  kind_free_text="Python driver generating contract harnesses; goto-cc / goto-instrument --dfcc / cbmc 6.11 with minisat, z3, cvc5; native replay with gcc+ASan/UBSan")],
    checks=checks,
    notes="Contract-based deductive verification with CBMC; see DESIGN.md. Exit 2 from a check means UNDECIDED (tool limit), never a violation.",
    not_applicable=na)
if "--check-tools" in sys.argv:
    import shutil
    for t in ("cbmc", "goto-cc", "goto-instrument", "gcc", "z3", "cvc5"):
        if not shutil.which(t):
            print("missing tool", t); sys.exit(1)
    print("tools present"); sys.exit(0)
json.dump(man, open("/verif/MANIFEST.json", "w"), indent=1)
try:
    import jsonschema
    jsonschema.validate(man, json.load(open("/root/.vp/MANIFEST.schema.json")))
    print("MANIFEST.json valid; claimed:", sorted(CLAIMED))
except ImportError:
    print("written (jsonschema not available)")
