#!/bin/bash
# usage: seedcheck_wt.sh <patch.diff> <property> [extra check args]
# like seedcheck.sh, but in a scratch worktree of /repo (removed afterwards), so that /repo itself stays untouched
p=$(realpath "$1"); prop=$2; shift 2
wt=/tmp/seedcheck_wt_$$
git -C /repo worktree add -q --detach "$wt" HEAD || exit 9
trap 'git -C /repo worktree remove --force "$wt" >/dev/null 2>&1; rm -rf "$wt"' EXIT
git -C "$wt" apply "$p" || { echo "PATCH DOES NOT APPLY"; exit 8; }
cd /verif && VERIF_TMP=/verif/.work_wt ./check "$prop" --repo "$wt" "$@" 2>&1 | grep -v '^WARNING conda' | tail -12; rc=${PIPESTATUS[0]}
echo "check rc=$rc"
exit $rc
