#!/bin/bash
# usage: seed_round.sh <glob of seeded dirs, e.g. 'C*-r2m*'> [parallel]
# For every matching /verif/seeded/<dir>: confirm (scratch worktree: applies, builds, pinned tests pass, demo passes clean / fails patched)
# and run the property's quick check on the patched scratch worktree. Results: /verif/.work_wt/seedround/<dir>.log and a summary on stdout.
pat=${1:-'C*'}; par=${2:-4}
mkdir -p /verif/.work_wt/seedround
one() { d=/verif/seeded/$1; id=${1%%-*}; out=/verif/.work_wt/seedround/$1.log
  { echo "### $1"; echo "--- confirm"; bash /verif/tools/confirm_seed.sh $d; echo "confirm rc=$?"; echo "--- check"; bash /verif/tools/seedcheck_wt.sh $d/patch.diff $id; } > $out 2>&1
  echo "$1 confirmed=$(grep -c '^CONFIRMED' $out) $(grep '^check rc' $out) $(grep -m1 'failed obligation' $out | cut -c1-160)"; }
export -f one
cd /verif/seeded && ls -d $pat | xargs -P $par -I{} bash -c 'one {}'
