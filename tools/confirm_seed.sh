#!/bin/bash
# usage: confirm_seed.sh <dir containing patch.diff and demo.sh>
# Confirms in a scratch worktree of /repo (removed afterwards): patch applies, project builds,
# the pinned tests pass, demo passes without the patch and fails with it.
set -u
d=$(realpath "$1"); wt=/tmp/confirm_wt_$$
git -C /repo worktree add -q --detach "$wt" HEAD || exit 9
trap 'git -C /repo worktree remove --force "$wt" >/dev/null 2>&1; rm -rf "$wt"' EXIT
cd "$wt"
echo "== demo on clean tree"; bash "$d/demo.sh" "$wt" >/tmp/confirm_clean_$$.log 2>&1; c=$?; echo "clean rc=$c"
git apply "$d/patch.diff" || { echo "PATCH DOES NOT APPLY"; exit 8; }
echo "== build"; (cmake -G Ninja -S . -B _build >/dev/null && cmake --build _build 2>&1 | tail -1) || { echo BUILD-FAIL; exit 7; }
./_build/w2c2/w2c2_test > /tmp/confirm_t1_$$.log 2>&1; t1=$?; ./_build/wasi/w2c2wasi_test > /tmp/confirm_t2_$$.log 2>&1; t2=$?
echo "tests rc=$t1,$t2 fail-lines=$(grep -c 'FAIL\|NOT OK' /tmp/confirm_t1_$$.log /tmp/confirm_t2_$$.log | tr '\n' ' ')"
rm -rf _build
echo "== demo on patched tree"; bash "$d/demo.sh" "$wt" >/tmp/confirm_mut_$$.log 2>&1; m=$?; echo "mutated rc=$m"; tail -3 /tmp/confirm_mut_$$.log
rm -f /tmp/confirm_*_$$.log
if [ $c -eq 0 ] && [ $m -ne 0 ] && [ $t1 -eq 0 ] && [ $t2 -eq 0 ]; then echo CONFIRMED; exit 0; else echo NOT-CONFIRMED; exit 1; fi
