#!/usr/bin/env python3
"""import_seed.py <prop> <mN> <status> <caught-by text> : copy a confirmed seeded change into /verif/seeded/"""
import json, os, shutil, sys
prop, m, status, caught = sys.argv[1:5]
src = "/tmp/seed_out/%s/%s" % (prop, m)
dst = "/verif/seeded/%s-%s" % (prop, m)
if os.path.exists(dst):
    shutil.rmtree(dst)
shutil.copytree(src, dst)
meta = dict(property=prop, origin="independent sub-agent given only the property text and a scratch worktree",
            needs_to_manifest=open(os.path.join(src, "meta.txt")).read(),
            confirmed_with="tools/confirm_seed.sh (scratch worktree: patch applies, cmake build, w2c2_test and w2c2wasi_test pass, demo.sh passes on the clean tree and fails with the patch)",
            check_run="tools/seedcheck.sh seeded/%s-%s/patch.diff %s" % (prop, m, prop),
            check_result=status, caught_by=caught)
json.dump(meta, open(os.path.join(dst, "meta.json"), "w"), indent=1)
print("imported", dst)
