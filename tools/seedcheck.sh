#!/bin/bash
# usage: seedcheck.sh <patch.diff> <property> [extra check args]
# applies the patch to /repo, runs the quick check, reverts.
p=$(realpath "$1"); prop=$2; shift 2
git -C /repo diff --quiet || { echo "/repo not clean"; exit 9; }
git -C /repo apply "$p" || { echo "PATCH DOES NOT APPLY"; exit 8; }
cd /verif && ./check "$prop" "$@" 2>&1 | grep -v '^WARNING conda' | tail -12; rc=${PIPESTATUS[0]}
git -C /repo checkout -- .
echo "check rc=$rc"
exit $rc
