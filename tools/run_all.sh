#!/bin/bash
# runs every registered check (quick by default) on the current /repo tree and prints one line per property
tier=${1:-quick}
cd "$(dirname "$(readlink -f "$0")")/.."
for i in 01 02 03 04 05 06 07 08 09 10 11 12 13 14 15 16 17 18 19 20; do
  s=$(date +%s); out=$(./check C$i --tier $tier 2>&1); rc=$?; e=$(date +%s)
  echo "C$i rc=$rc $((e-s))s $(echo "$out" | grep -E '^(OK|FAIL|UNDECIDED) property' | tail -1)"
  echo "$out" | grep -E "^(VIOLATION|UNDECIDED property=.* job=)" | head -3
done
