/* ENV model of libm for layers R/G: each function records (id, operand bits) and returns an
 * unconstrained value whose bits are recorded too.  The contract proved with it is the opcode ->
 * libm-function mapping ("exactly one call of the C99 function that computes the specified operation
 * at the specified width, on the operand's exact bits, result passed on bit-identically");
 * that the libm function itself conforms to C99 Annex F / IEEE 754 is an ASSUMPTION.
 * Natively (replay) the markers compute through a wider type so that no recursion into themselves
 * can occur. */
#ifndef LIBM_MARKERS_H
#define LIBM_MARKERS_H
enum { LIBM_NONE = 0, LIBM_CEILF, LIBM_FLOORF, LIBM_TRUNCF, LIBM_NEARBYINTF, LIBM_SQRTF, LIBM_FABSF, LIBM_COPYSIGNF,
       LIBM_CEIL, LIBM_FLOOR, LIBM_TRUNC, LIBM_NEARBYINT, LIBM_SQRT, LIBM_FABS, LIBM_COPYSIGN, LIBM_OTHER };
static int g_libm_calls = 0, g_libm_id = LIBM_NONE;
static unsigned long long g_libm_a0 = 0, g_libm_a1 = 0, g_libm_ret = 0;
static unsigned int lm_b32(float f) { union { float f; unsigned int u; } p; p.f = f; return p.u; }
static unsigned long long lm_b64(double f) { union { double f; unsigned long long u; } p; p.f = f; return p.u; }
#ifdef VERIF_NATIVE
#define LM_RET32(expr) float r = (float)(expr)
#define LM_RET64(expr) double r = (double)(expr)
#else
float nondet_float(void); double nondet_double(void);
#define LM_RET32(expr) float r = nondet_float()
#define LM_RET64(expr) double r = nondet_double()
#endif
#define LM1F(name, id, native) float name(float x) { LM_RET32(native); g_libm_calls++; g_libm_id = id; g_libm_a0 = lm_b32(x); g_libm_a1 = 0; g_libm_ret = lm_b32(r); return r; }
#define LM1D(name, id, native) double name(double x) { LM_RET64(native); g_libm_calls++; g_libm_id = id; g_libm_a0 = lm_b64(x); g_libm_a1 = 0; g_libm_ret = lm_b64(r); return r; }
LM1F(ceilf, LIBM_CEILF, __builtin_ceil((double)x))
LM1F(floorf, LIBM_FLOORF, __builtin_floor((double)x))
LM1F(truncf, LIBM_TRUNCF, __builtin_trunc((double)x))
LM1F(nearbyintf, LIBM_NEARBYINTF, __builtin_nearbyint((double)x))
LM1F(sqrtf, LIBM_SQRTF, __builtin_sqrt((double)x))
LM1F(fabsf, LIBM_FABSF, __builtin_fabs((double)x))
LM1D(ceil, LIBM_CEIL, __builtin_ceill((long double)x))
LM1D(floor, LIBM_FLOOR, __builtin_floorl((long double)x))
LM1D(trunc, LIBM_TRUNC, __builtin_truncl((long double)x))
LM1D(nearbyint, LIBM_NEARBYINT, __builtin_nearbyintl((long double)x))
LM1D(sqrt, LIBM_SQRT, __builtin_sqrtl((long double)x))
LM1D(fabs, LIBM_FABS, __builtin_fabsl((long double)x))
float copysignf(float x, float y) { LM_RET32(__builtin_copysign((double)x, (double)y)); g_libm_calls++; g_libm_id = LIBM_COPYSIGNF; g_libm_a0 = lm_b32(x); g_libm_a1 = lm_b32(y); g_libm_ret = lm_b32(r); return r; }
double copysign(double x, double y) { LM_RET64(__builtin_copysignl((long double)x, (long double)y)); g_libm_calls++; g_libm_id = LIBM_COPYSIGN; g_libm_a0 = lm_b64(x); g_libm_a1 = lm_b64(y); g_libm_ret = lm_b64(r); return r; }
/* near misses that a wrong mapping could pick: they count as a call of the wrong function */
#define LM_OTHER1F(name) float name(float x) { g_libm_calls++; g_libm_id = LIBM_OTHER; return x; }
#define LM_OTHER1D(name) double name(double x) { g_libm_calls++; g_libm_id = LIBM_OTHER; return x; }
LM_OTHER1F(roundf) LM_OTHER1F(rintf) LM_OTHER1D(round) LM_OTHER1D(rint)
#define LIBM_USED_EXACTLY(id, b0, b1, retbits) \
    (g_libm_calls == 1 && g_libm_id == (id) && g_libm_a0 == (unsigned long long)(b0) && g_libm_a1 == (unsigned long long)(b1) && g_libm_ret == (unsigned long long)(retbits))
#endif
