/* ENV: model of the POSIX interface used by wasi/wasi.c (assumed contracts on dependencies).
 * Included BEFORE wasi.c.  Every host function wasi.c calls is renamed by macro to a vh_* model
 * function (the system headers' own declarations are renamed consistently, so the same text compiles
 * under goto-cc and natively).  Each model records (call count, arguments) in ghost variables and
 * returns harness-controlled results; obligations are then stated on the ghost trace:
 * "exactly the corresponding host operation, with these arguments".
 * What the kernel does with the call is NOT modelled (DESIGN.md section 6). */
#ifndef POSIX_MODEL_H
#define POSIX_MODEL_H
#define _DEFAULT_SOURCE 1
#include <stddef.h>
#include "vh.h"

#define close vh_close
#define closedir vh_closedir
#define opendir vh_opendir
#define readdir vh_readdir
#define seekdir vh_seekdir
#define telldir vh_telldir
#define rewinddir vh_rewinddir
#define lseek vh_lseek
#define readv vh_readv
#define writev vh_writev
#define open vh_open
#define fstat vh_fstat
#define lstat vh_lstat
#define mkdir vh_mkdir
#define rmdir vh_rmdir
#define unlink vh_unlink
#define rename vh_rename
#define symlink vh_symlink
#define readlink vh_readlink
#define fsync vh_fsync
#define fdatasync vh_fdatasync
#define clock_gettime vh_clock_gettime
#define clock_getres vh_clock_getres
#define getentropy vh_getentropy
#define isatty vh_isatty
#define fcntl vh_fcntl
#define pthread_create vh_pthread_create
#define read vh_read
#define srandom vh_srandom
#define random vh_random

#include <stdio.h>
#include <stdlib.h>
#include <string.h>
#include <unistd.h>
#include <time.h>
#include <fcntl.h>
#include <errno.h>
#include <limits.h>
#include <sys/time.h>
#include <sys/resource.h>
#include <sys/uio.h>
#include <sys/types.h>
#include <sys/stat.h>
#include <dirent.h>
#include <pthread.h>

#ifdef VERIF_CBMC
/* C-standard definitions of the string functions are used instead of CBMC 6.11's library models: in probes the
 * models of memchr and strlen returned values that the native run of the same harness contradicts.
 * CBMC 6.11's library model of memchr returned a pointer that is not the first occurrence in a probe
 * (native run disagrees); the C standard definition is used instead */
size_t strlen(const char* s) { size_t n = 0; while (s[n] != 0) n++; return n; }
char* strcpy(char* d, const char* s) { size_t i = 0; for (;; i++) { d[i] = s[i]; if (s[i] == 0) break; } return d; }
char* strcat(char* d, const char* s) { size_t n = 0, i = 0; while (d[n] != 0) n++; for (;; i++) { d[n + i] = s[i]; if (s[i] == 0) break; } return d; }
int strcmp(const char* a, const char* b) { size_t i = 0; for (;; i++) { unsigned char x = (unsigned char)a[i], y = (unsigned char)b[i]; if (x != y) return x < y ? -1 : 1; if (x == 0) return 0; } }
void* memchr(const void* s, int c, size_t n) {
    const unsigned char* p = (const unsigned char*)s; size_t i;
    for (i = 0; i < n; i++) { if (p[i] == (unsigned char)c) return (void*)(p + i); }
    return 0;
}
#endif

/* stat()/exit() are renamed only after the headers: `stat` is also a struct tag, `exit` is noreturn */
int vh_stat_fn(const char* path, struct stat* st);
void vh_exit_fn(int code);

enum { EV_NONE = 0, EV_close, EV_closedir, EV_opendir, EV_readdir, EV_seekdir, EV_telldir, EV_lseek, EV_readv, EV_writev, EV_open,
       EV_fstat, EV_stat, EV_lstat, EV_mkdir, EV_rmdir, EV_unlink, EV_rename, EV_symlink, EV_readlink, EV_fsync, EV_fdatasync,
       EV_clock_gettime, EV_clock_getres, EV_getentropy, EV_isatty, EV_fcntl, EV_exit, EV_pthread_create, EV_free, EV_COUNT };

#define EV_PATHMAX 64
static int g_ev_calls = 0;                 /* total number of ENV calls */
static int g_ev_n[EV_COUNT];               /* per function */
static int g_ev_last = EV_NONE;
static int g_ev_fd = -2, g_ev_fd2 = -2;    /* descriptor argument(s) */
static long long g_ev_off = 0; static int g_ev_whence = -1, g_ev_flags = 0, g_ev_mode = 0;
static char g_ev_path[EV_PATHMAX], g_ev_path2[EV_PATHMAX];  /* copies of path arguments */
static const void* g_ev_ptr = 0; static size_t g_ev_len = 0; static int g_ev_cnt = 0;
static void* g_ev_dir = 0;
static long long g_ev_result = 0;          /* what the model returned */
static int g_ev_errno_on_fail = 0;
#define EV_SEQ_MAX 8
static int g_ev_seq[EV_SEQ_MAX];           /* order of the first calls */
static long long g_ev_seq_off[EV_SEQ_MAX]; static int g_ev_seq_whence[EV_SEQ_MAX];

static long long g_ev_seq_res[EV_SEQ_MAX]; static int g_ev_seq_errno[EV_SEQ_MAX]; static int g_ev_cur = 0;
static void ev_note(int id) { g_ev_cur = g_ev_calls; if (g_ev_calls < EV_SEQ_MAX) { g_ev_seq[g_ev_calls] = id; g_ev_seq_res[g_ev_calls] = 0; g_ev_seq_errno[g_ev_calls] = 0; } g_ev_calls++; g_ev_n[id]++; g_ev_last = id; }
static void ev_copy_path(char* dst, const char* src) {
    size_t i = 0;
    if (!src) { dst[0] = 0; return; }
    for (; i < EV_PATHMAX - 1 && src[i]; i++) dst[i] = src[i];
    dst[i] = 0;
}
static void ev_reset(void) { int i; g_ev_calls = 0; for (i = 0; i < EV_COUNT; i++) g_ev_n[i] = 0; g_ev_last = EV_NONE; }

/* a model call either succeeds (>= 0 result chosen by the harness / nondeterministically) or fails with -1 and an errno */
#define EV_FAIL_OR(okexpr) do { ND(int, ev_fail); if (ev_fail) { ND(int, ev_errno); ASSUME(ev_errno > 0 && ev_errno < 134); errno = ev_errno; g_ev_errno_on_fail = ev_errno; g_ev_result = -1; \
      if (g_ev_cur < EV_SEQ_MAX) { g_ev_seq_res[g_ev_cur] = -1; g_ev_seq_errno[g_ev_cur] = ev_errno; } return -1; } \
    g_ev_result = (long long)(okexpr); if (g_ev_cur < EV_SEQ_MAX) g_ev_seq_res[g_ev_cur] = g_ev_result; return (okexpr); } while (0)

int vh_close(int fd) { ev_note(EV_close); g_ev_fd = fd; EV_FAIL_OR(0); }
typedef struct vh_dirstream { int pos; int open; } vh_dirstream;
static vh_dirstream g_ev_dirstream;          /* the one DIR object the model hands out */
/* ghost life cycle of the directory stream: closedir ends it; any later use is a use of released host memory */
#define EV_STREAM_LIVE(d) OBL(((vh_dirstream*)(d))->open, "host: a directory stream is only used (readdir/seekdir/telldir/closedir) while it is open - never after closedir")
int vh_closedir(DIR* d) { ev_note(EV_closedir); g_ev_dir = d; EV_STREAM_LIVE(d); ((vh_dirstream*)d)->open = 0; EV_FAIL_OR(0); }
off_t vh_lseek(int fd, off_t off, int whence) {
    if (g_ev_calls < EV_SEQ_MAX) { g_ev_seq_off[g_ev_calls] = off; g_ev_seq_whence[g_ev_calls] = whence; }
    ev_note(EV_lseek); g_ev_fd = fd; g_ev_off = off; g_ev_whence = whence;
    if (whence == SEEK_SET && off < 0) { errno = EINVAL; g_ev_errno_on_fail = EINVAL; g_ev_result = -1; if (g_ev_cur < EV_SEQ_MAX) { g_ev_seq_res[g_ev_cur] = -1; g_ev_seq_errno[g_ev_cur] = EINVAL; } return (off_t)-1; }   /* POSIX: a negative resulting offset is EINVAL */
    { ND(long long, ev_pos); ASSUME(ev_pos >= 0); EV_FAIL_OR((off_t)ev_pos); }
}
static const struct iovec* g_ev_iov = 0;
#define EV_IOV_MAX 3
static struct iovec g_ev_iovcopy[EV_IOV_MAX];   /* the vector as it was at call time (the caller frees it afterwards) */
static void ev_copy_iov(const struct iovec* iov, int cnt) { int i; for (i = 0; i < cnt && i < EV_IOV_MAX; i++) g_ev_iovcopy[i] = iov[i]; }
ssize_t vh_readv(int fd, const struct iovec* iov, int cnt) { ev_note(EV_readv); g_ev_fd = fd; g_ev_iov = iov; g_ev_cnt = cnt; ev_copy_iov(iov, cnt); { ND(long long, ev_n); ASSUME(ev_n >= 0); EV_FAIL_OR((ssize_t)ev_n); } }
ssize_t vh_writev(int fd, const struct iovec* iov, int cnt) { ev_note(EV_writev); g_ev_fd = fd; g_ev_iov = iov; g_ev_cnt = cnt; ev_copy_iov(iov, cnt); { ND(long long, ev_n); ASSUME(ev_n >= 0); EV_FAIL_OR((ssize_t)ev_n); } }
int vh_open(const char* path, int flags, ...) {
    va_list ap; int mode;
    va_start(ap, flags); mode = va_arg(ap, int); va_end(ap);
    ev_note(EV_open); ev_copy_path(g_ev_path, path); g_ev_flags = flags; g_ev_mode = mode;
    { ND(int, ev_newfd); ASSUME(ev_newfd >= 3); EV_FAIL_OR(ev_newfd); }
}
static struct stat g_ev_stat;               /* what (f|l)stat delivers, set by the harness */
int vh_fstat(int fd, struct stat* st) { ev_note(EV_fstat); g_ev_fd = fd; { ND(int, ev_fail); if (ev_fail) { errno = EIO; return -1; } *st = g_ev_stat; return 0; } }
int vh_stat_fn(const char* path, struct stat* st) { ev_note(EV_stat); ev_copy_path(g_ev_path, path); { ND(int, ev_fail); if (ev_fail) { errno = ENOENT; return -1; } *st = g_ev_stat; return 0; } }
int vh_lstat(const char* path, struct stat* st) { ev_note(EV_lstat); ev_copy_path(g_ev_path, path); { ND(int, ev_fail); if (ev_fail) { errno = ENOENT; return -1; } *st = g_ev_stat; return 0; } }
int vh_mkdir(const char* path, mode_t mode) { ev_note(EV_mkdir); ev_copy_path(g_ev_path, path); g_ev_mode = (int)mode; EV_FAIL_OR(0); }
int vh_rmdir(const char* path) { ev_note(EV_rmdir); ev_copy_path(g_ev_path, path); EV_FAIL_OR(0); }
int vh_unlink(const char* path) { ev_note(EV_unlink); ev_copy_path(g_ev_path, path); EV_FAIL_OR(0); }
int vh_rename(const char* a, const char* b) { ev_note(EV_rename); ev_copy_path(g_ev_path, a); ev_copy_path(g_ev_path2, b); EV_FAIL_OR(0); }
int vh_symlink(const char* a, const char* b) { ev_note(EV_symlink); ev_copy_path(g_ev_path, a); ev_copy_path(g_ev_path2, b); EV_FAIL_OR(0); }
ssize_t vh_readlink(const char* path, char* buf, size_t len) {
    ev_note(EV_readlink); ev_copy_path(g_ev_path, path); g_ev_ptr = buf; g_ev_len = len;
    { ND(long long, ev_n); ASSUME(ev_n >= 0 && (size_t)ev_n <= len); EV_FAIL_OR((ssize_t)ev_n); }
}
int vh_fsync(int fd) { ev_note(EV_fsync); g_ev_fd = fd; EV_FAIL_OR(0); }
int vh_fdatasync(int fd) { ev_note(EV_fdatasync); g_ev_fd = fd; EV_FAIL_OR(0); }
static struct timespec g_ev_ts; static int g_ev_clockid = -1;
int vh_clock_gettime(clockid_t id, struct timespec* ts) { ev_note(EV_clock_gettime); g_ev_clockid = (int)id; { ND(int, ev_fail); if (ev_fail) { errno = EINVAL; return -1; } *ts = g_ev_ts; return 0; } }
int vh_clock_getres(clockid_t id, struct timespec* ts) { ev_note(EV_clock_getres); g_ev_clockid = (int)id; { ND(int, ev_fail); if (ev_fail) { errno = EINVAL; return -1; } *ts = g_ev_ts; return 0; } }
/* getentropy(3): "The maximum permitted value for the length argument is 256", otherwise EIO; fills exactly len bytes */
#define EV_ENTROPY_MAXFILL 8
static unsigned long long g_ev_entropy_total = 0; static unsigned char* g_ev_entropy_lo = 0; static unsigned char* g_ev_entropy_hi = 0; static int g_ev_entropy_gap = 0;
int vh_getentropy(void* buf, size_t len) {
    ev_note(EV_getentropy); g_ev_ptr = buf; g_ev_len = len;
    if (len > 256) { errno = EIO; return -1; }
    /* ghost: the filled ranges must tile the requested buffer */
    if (g_ev_entropy_lo == 0) { g_ev_entropy_lo = (unsigned char*)buf; g_ev_entropy_hi = (unsigned char*)buf + len; }
    else if ((unsigned char*)buf == g_ev_entropy_hi) { g_ev_entropy_hi += len; } else { g_ev_entropy_gap = 1; }
    g_ev_entropy_total += len;
    return 0;
}
int vh_isatty(int fd) { ev_note(EV_isatty); g_ev_fd = fd; { ND(int, ev_tty); return ev_tty != 0; } }
int vh_fcntl(int fd, int cmd, ...) { ev_note(EV_fcntl); g_ev_fd = fd; g_ev_flags = cmd; { ND(int, ev_fl); return ev_fl; } }
static void* (*g_ev_thread_fn)(void*) = 0; static void* g_ev_thread_arg = 0;
int vh_pthread_create(pthread_t* t, const pthread_attr_t* a, void* (*fn)(void*), void* arg) {
    (void)t; (void)a; ev_note(EV_pthread_create); g_ev_thread_fn = fn; g_ev_thread_arg = arg; { ND(int, ev_fail); return ev_fail ? EAGAIN : 0; }
}

ssize_t vh_read(int fd, void* buf, size_t n) { ev_note(EV_readv); g_ev_fd = fd; g_ev_ptr = buf; g_ev_len = n; { ND(long long, ev_n); ASSUME(ev_n >= 0 && (size_t)ev_n <= n); EV_FAIL_OR((ssize_t)ev_n); } }
static unsigned long long g_ev_random_calls = 0;
/* frame witness for loop contracts that havoc a whole memory object: one ghost byte the loop must leave alone */
static unsigned char* g_fr_ptr = 0; static unsigned char g_fr_val = 0;
void vh_srandom(unsigned seed) { (void)seed; }
long vh_random(void) { ND(long, ev_rnd); g_ev_random_calls++; return ev_rnd; }

/* ---- directory streams: a ghost directory of up to 3 entries; telldir cookie of entry i is i+1 ---- */
#define EV_DIR_MAX 3
/* entries are kept in small separate arrays and copied into ONE static struct dirent by constant index (POSIX lets readdir
 * return storage that the next call overwrites); a symbolic index into an array of 280-byte struct dirent made CBMC 6.11
 * evaluate the same name differently through a pointer and through the array expression (native run disagreed) */
#define EV_NAMEMAX 3
static char g_ev_names[EV_DIR_MAX][EV_NAMEMAX + 1]; static unsigned long g_ev_inos[EV_DIR_MAX]; static unsigned char g_ev_types[EV_DIR_MAX];
static struct dirent g_ev_cur_dirent; static int g_ev_dirent_count = 0;
static void ev_fill_dirent(const char* nm, unsigned long ino, unsigned char ty) {
    int i; g_ev_cur_dirent.d_ino = ino; g_ev_cur_dirent.d_off = 0; g_ev_cur_dirent.d_reclen = 0; g_ev_cur_dirent.d_type = ty;
    for (i = 0; i <= EV_NAMEMAX; i++) g_ev_cur_dirent.d_name[i] = nm[i];
}
DIR* vh_opendir(const char* path) {
    ev_note(EV_opendir); ev_copy_path(g_ev_path, path);
    { ND(int, ev_fail); if (ev_fail) { errno = ENOENT; return 0; } g_ev_dirstream.pos = 0; g_ev_dirstream.open = 1; return (DIR*)&g_ev_dirstream; }
}
struct dirent* vh_readdir(DIR* d) {
    vh_dirstream* s = (vh_dirstream*)d; int p;
    ev_note(EV_readdir); g_ev_dir = d; EV_STREAM_LIVE(d);
    p = s->pos;
    if (p < 0 || p >= g_ev_dirent_count) return 0;
    if (p == 0) ev_fill_dirent(g_ev_names[0], g_ev_inos[0], g_ev_types[0]);
    else if (p == 1) ev_fill_dirent(g_ev_names[1], g_ev_inos[1], g_ev_types[1]);
    else ev_fill_dirent(g_ev_names[2], g_ev_inos[2], g_ev_types[2]);
    s->pos = p + 1;
    return &g_ev_cur_dirent;
}
long vh_telldir(DIR* d) { ev_note(EV_telldir); EV_STREAM_LIVE(d); return (long)((vh_dirstream*)d)->pos; }
void vh_seekdir(DIR* d, long loc) { ev_note(EV_seekdir); EV_STREAM_LIVE(d); ((vh_dirstream*)d)->pos = (int)loc; }
void vh_rewinddir(DIR* d) { ev_note(EV_seekdir); EV_STREAM_LIVE(d); ((vh_dirstream*)d)->pos = 0; }

/* exit never returns */
static int g_ev_exit_code = -1;
void vh_exit_fn(int code) { ev_note(EV_exit); g_ev_exit_code = code; CANARY("exit reached"); OBL(g_ev_exit_expected == code, "proc_exit: the process terminates with exactly the given status"); VH_STOP(); for (;;) { } }
#endif
