/* ENV model of sprintf for the conversions used by w2c2/stringbuilder.c: it writes, with real stores (so that the
 * verifier's bounds checks apply to the caller's buffer), exactly as many characters as the C standard prescribes
 * for the argument AS PASSED (after default argument promotion), followed by the terminator.  Digit values are
 * produced for the integer conversions; %.9g / %.17g write a nondeterministic text of the maximal specified length. */
#ifndef SPRINTF_MODEL_H
#define SPRINTF_MODEL_H
#include <stdarg.h>
static int sm_put_unsigned(char* out, unsigned long long v, unsigned base, int upper, int minwidth) {
    char tmp[32]; int n = 0, i;
    do { unsigned d = (unsigned)(v % base); tmp[n++] = (char)(d < 10 ? '0' + d : (upper ? 'A' : 'a') + d - 10); v /= base; } while (v != 0);
    while (n < minwidth) tmp[n++] = '0';
    for (i = 0; i < n; i++) out[i] = tmp[n - 1 - i];
    return n;
}
/* The harness passes the value through unary plus (sprintf(b, f, v) -> vh_sb_sprintf(b, f, +(v))): C's integer promotions are then applied by the
 * language itself, whatever type the code under test passes (CBMC would otherwise keep the declared type of a variadic argument). */
#define SM_CHAR_ARG(ap) va_arg(ap, int)
#ifdef VERIF_CBMC
#define SM_F32_ARG(ap) ((double)va_arg(ap, float))
#else
#define SM_F32_ARG(ap) va_arg(ap, double)
#endif
static int sm_fmt_is(const char* f, const char* lit) { int i = 0; while (lit[i]) { if (f[i] != lit[i]) return 0; i++; } return f[i] == 0; }
static int vh_sb_sprintf(char* out, const char* fmt, ...) {
    va_list ap; int n = 0; va_start(ap, fmt);
    if (sm_fmt_is(fmt, "%u")) n = sm_put_unsigned(out, va_arg(ap, unsigned), 10, 0, 1);
    else if (sm_fmt_is(fmt, "%i")) { int v = va_arg(ap, int); unsigned u = (unsigned)v; if (v < 0) { out[n++] = '-'; u = 0u - u; } n += sm_put_unsigned(out + n, u, 10, 0, 1); }
    else if (sm_fmt_is(fmt, "%llu")) n = sm_put_unsigned(out, va_arg(ap, unsigned long long), 10, 0, 1);
    else if (sm_fmt_is(fmt, "%lli")) { long long v = va_arg(ap, long long); unsigned long long u = (unsigned long long)v; if (v < 0) { out[n++] = '-'; u = 0ull - u; } n += sm_put_unsigned(out + n, u, 10, 0, 1); }
    else if (sm_fmt_is(fmt, "%02X")) { int v = SM_CHAR_ARG(ap); n = sm_put_unsigned(out, (unsigned)v, 16, 1, 2); }      /* %X takes an unsigned int: a negative char arrives sign-extended */
    else if (sm_fmt_is(fmt, "%08X")) n = sm_put_unsigned(out, va_arg(ap, unsigned), 16, 1, 8);
    else if (sm_fmt_is(fmt, "%016llX")) n = sm_put_unsigned(out, va_arg(ap, unsigned long long), 16, 1, 16);
    else if (sm_fmt_is(fmt, "%.9g")) { int k; (void)SM_F32_ARG(ap); n = 16; for (k = 0; k < n; k++) out[k] = '9'; }       /* -d.dddddddde-dd : at most 16 characters */
    else if (sm_fmt_is(fmt, "%.17g")) { int k; (void)va_arg(ap, double); n = 24; for (k = 0; k < n; k++) out[k] = '9'; }      /* -d.dddddddddddddddde-ddd : at most 24 characters */
    else { OBL(0, "TOOL-LIMIT sprintf model: a format this model does not know (nothing can be said about the output)"); }
    out[n] = 0; va_end(ap);
    return n;
}
/* General form for calls with more than one conversion (arguments captured by value as long long, strings as pointers): flags 0, a
 * decimal width, length modifier ll, conversions u i d X s c.  Used through the sprintf macro of the harness (VH_SPRINTF below). */
static int vh_sb_sprintf_ll(char* out, const char* fmt, int nargs, long long a1, long long a2, long long a3, long long a4, long long a5) {
    long long args[5]; int ai = 0, n = 0; size_t i = 0; args[0] = a1; args[1] = a2; args[2] = a3; args[3] = a4; args[4] = a5;
    while (fmt[i]) {
        int zero = 0, width = 0, ll = 0; long long v;
        if (fmt[i] != '%') { out[n++] = fmt[i++]; continue; }
        i++;
        if (fmt[i] == '0') { zero = 1; i++; }
        while (fmt[i] >= '0' && fmt[i] <= '9') { width = width * 10 + (fmt[i] - '0'); i++; }
        while (fmt[i] == 'l') { ll++; i++; }
        if (ai >= nargs || ai >= 5) { OBL(0, "TOOL-LIMIT sprintf model: more conversions than captured arguments"); break; }
        v = args[ai++];
        if (fmt[i] == 'u') n += sm_put_unsigned(out + n, ll ? (unsigned long long)v : (unsigned long long)(unsigned)v, 10, 0, zero ? width : 1);
        else if (fmt[i] == 'i' || fmt[i] == 'd') { long long sv = ll ? v : (long long)(int)v; unsigned long long u = (unsigned long long)sv; if (sv < 0) { out[n++] = '-'; u = 0ull - u; } n += sm_put_unsigned(out + n, u, 10, 0, zero ? width : 1); }
        else if (fmt[i] == 'X') n += sm_put_unsigned(out + n, ll ? (unsigned long long)v : (unsigned long long)(unsigned)v, 16, 1, zero ? width : 1);
        else if (fmt[i] == 'c') out[n++] = (char)v;
        else if (fmt[i] == 's') { const char* sp = (const char*)(size_t)v; size_t k = 0; while (sp[k]) out[n++] = sp[k++]; }
        else { OBL(0, "TOOL-LIMIT sprintf model: a conversion this model does not know"); break; }
        i++;
    }
    out[n] = 0;
    return n;
}
#define VH_SPR_NARG_(_1, _2, _3, _4, _5, N, ...) N
#define VH_SPR_NARG(...) VH_SPR_NARG_(__VA_ARGS__, 5, 4, 3, 2, 1, 0)
#define VH_SPR_CAT_(a, b) a##b
#define VH_SPR_CAT(a, b) VH_SPR_CAT_(a, b)
#define VH_SPR_1(b, f, v) vh_sb_sprintf(b, f, +(v))
#define VH_SPR_2(b, f, x1, x2) vh_sb_sprintf_ll(b, f, 2, (long long)(x1), (long long)(x2), 0LL, 0LL, 0LL)
#define VH_SPR_3(b, f, x1, x2, x3) vh_sb_sprintf_ll(b, f, 3, (long long)(x1), (long long)(x2), (long long)(x3), 0LL, 0LL)
#define VH_SPR_4(b, f, x1, x2, x3, x4) vh_sb_sprintf_ll(b, f, 4, (long long)(x1), (long long)(x2), (long long)(x3), (long long)(x4), 0LL)
#define VH_SPR_5(b, f, x1, x2, x3, x4, x5) vh_sb_sprintf_ll(b, f, 5, (long long)(x1), (long long)(x2), (long long)(x3), (long long)(x4), (long long)(x5))
#define VH_SPRINTF(b, f, ...) VH_SPR_CAT(VH_SPR_, VH_SPR_NARG(__VA_ARGS__))(b, f, __VA_ARGS__)
#endif
