/* ENV model of sprintf for the conversions used by w2c2/stringbuilder.c: it writes, with real stores (so that the
 * verifier's bounds checks apply to the caller's buffer), exactly as many characters as the C standard prescribes
 * for the argument AS PASSED (after default argument promotion), followed by the terminator.  Digit values are
 * produced for the integer conversions; %.9g / %.17g write a nondeterministic text of the maximal specified length. */
#ifndef SPRINTF_MODEL_H
#define SPRINTF_MODEL_H
#include <stdarg.h>
static int sm_put_unsigned(char* out, unsigned long long v, unsigned base, int upper, int minwidth) {
    char tmp[32]; int n = 0, i;
    do { unsigned d = (unsigned)(v % base); tmp[n++] = (char)(d < 10 ? '0' + d : (upper ? 'A' : 'a') + d - 10); v /= base; } while (v != 0);
    while (n < minwidth) tmp[n++] = '0';
    for (i = 0; i < n; i++) out[i] = tmp[n - 1 - i];
    return n;
}
/* The harness passes the value through unary plus (sprintf(b, f, v) -> vh_sb_sprintf(b, f, +(v))): C's integer promotions are then applied by the
 * language itself, whatever type the code under test passes (CBMC would otherwise keep the declared type of a variadic argument). */
#define SM_CHAR_ARG(ap) va_arg(ap, int)
#ifdef VERIF_CBMC
#define SM_F32_ARG(ap) ((double)va_arg(ap, float))
#else
#define SM_F32_ARG(ap) va_arg(ap, double)
#endif
static int sm_fmt_is(const char* f, const char* lit) { int i = 0; while (lit[i]) { if (f[i] != lit[i]) return 0; i++; } return f[i] == 0; }
static int vh_sb_sprintf(char* out, const char* fmt, ...) {
    va_list ap; int n = 0; va_start(ap, fmt);
    if (sm_fmt_is(fmt, "%u")) n = sm_put_unsigned(out, va_arg(ap, unsigned), 10, 0, 1);
    else if (sm_fmt_is(fmt, "%i")) { int v = va_arg(ap, int); unsigned u = (unsigned)v; if (v < 0) { out[n++] = '-'; u = 0u - u; } n += sm_put_unsigned(out + n, u, 10, 0, 1); }
    else if (sm_fmt_is(fmt, "%llu")) n = sm_put_unsigned(out, va_arg(ap, unsigned long long), 10, 0, 1);
    else if (sm_fmt_is(fmt, "%lli")) { long long v = va_arg(ap, long long); unsigned long long u = (unsigned long long)v; if (v < 0) { out[n++] = '-'; u = 0ull - u; } n += sm_put_unsigned(out + n, u, 10, 0, 1); }
    else if (sm_fmt_is(fmt, "%02X")) { int v = SM_CHAR_ARG(ap); n = sm_put_unsigned(out, (unsigned)v, 16, 1, 2); }      /* %X takes an unsigned int: a negative char arrives sign-extended */
    else if (sm_fmt_is(fmt, "%08X")) n = sm_put_unsigned(out, va_arg(ap, unsigned), 16, 1, 8);
    else if (sm_fmt_is(fmt, "%016llX")) n = sm_put_unsigned(out, va_arg(ap, unsigned long long), 16, 1, 16);
    else if (sm_fmt_is(fmt, "%.9g")) { int k; (void)SM_F32_ARG(ap); n = 16; for (k = 0; k < n; k++) out[k] = '9'; }       /* -d.dddddddde-dd : at most 16 characters */
    else if (sm_fmt_is(fmt, "%.17g")) { int k; (void)va_arg(ap, double); n = 24; for (k = 0; k < n; k++) out[k] = '9'; }      /* -d.dddddddddddddddde-ddd : at most 24 characters */
    else { OBL(0, "sprintf model: unknown format in stringbuilder.c"); }
    out[n] = 0; va_end(ap);
    return n;
}
#endif
