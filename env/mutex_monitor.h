/* ENV model of pthread mutexes for sequential rely/guarantee obligations (DESIGN.md 2.5).
 *  lock  : must not be held; then the protected state registered by the harness (g_mon_data,
 *          g_mon_len) is HAVOCKED - other threads may have completed any number of operations before
 *          we got the lock - and the havocked state is copied to g_mon_old as the linearization-point
 *          snapshot the postcondition is stated against.  A read of protected state BEFORE the lock
 *          is therefore stale and fails the postcondition.
 *  unlock: must be held.
 * That pthread mutexes provide mutual exclusion (monitor meta-theorem) is an ASSUMPTION. */
#ifndef MUTEX_MONITOR_H
#define MUTEX_MONITOR_H
#include <pthread.h>
#include "vh.h"
#ifndef MON_MAX
#define MON_MAX 64
#endif
static int g_mutex_held = 0, g_mutex_locks = 0, g_unlocked_access = 0;
static unsigned char* g_mon_data = 0; static unsigned char* g_mon_old = 0; static size_t g_mon_len = 0;
/* optional harness hook (havoc further protected state): #define MON_HOOK fn before including this file */
#ifdef MON_HOOK
static void MON_HOOK(void);
#endif
/* optional: called at release, before the mutex is given up (snapshot of the protected state as other threads will see it) */
#ifdef MON_UNLOCK_HOOK
static void MON_UNLOCK_HOOK(void);
#endif
int pthread_mutex_lock(pthread_mutex_t* m) {
    (void)m;
    OBL(!g_mutex_held, "mutex is not acquired while already held (no self-deadlock)");
    g_mutex_held = 1; g_mutex_locks++;
#ifndef MON_NO_DATA
    if (g_mon_data) {
        ND_ARR(unsigned char, hv, MON_MAX);
        size_t i;
        for (i = 0; i < g_mon_len && i < MON_MAX; i++) { g_mon_data[i] = hv[i]; if (g_mon_old) g_mon_old[i] = hv[i]; }
    }
#endif
#ifdef MON_HOOK
    MON_HOOK();
#endif
    return 0;
}
int pthread_mutex_unlock(pthread_mutex_t* m) {
    (void)m;
    OBL(g_mutex_held, "mutex is released only while held");
#ifdef MON_UNLOCK_HOOK
    MON_UNLOCK_HOOK();
#endif
    g_mutex_held = 0;
    return 0;
}
int pthread_mutex_init(pthread_mutex_t* m, const pthread_mutexattr_t* a) { (void)m; (void)a; return 0; }
int pthread_mutex_destroy(pthread_mutex_t* m) { (void)m; return 0; }
#endif
