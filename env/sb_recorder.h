/* Ghost recorder replacing w2c2/stringbuilder.c in emitter (layer E) harnesses: every append becomes a typed
 * event; the postconditions talk about the event sequence, not about decimal text (DESIGN.md 2.4).
 * Included AFTER c.c (which only sees the declarations of stringbuilder.h). */
#ifndef SB_RECORDER_H
#define SB_RECORDER_H
enum { SB_STR = 1, SB_CHR, SB_U32, SB_I32, SB_U64, SB_I64, SB_F32, SB_F64, SB_HEX32, SB_HEX64, SB_CHARHEX };
#ifndef SB_MAX
#define SB_MAX 24
#endif
typedef struct SbEvent { int kind; const char* str; size_t len; unsigned long long bits; } SbEvent;
static SbEvent g_sb[SB_MAX]; static int g_sb_n = 0; static int g_sb_overflow = 0;
#ifndef SB_HOOK
#define SB_HOOK(kind, s, len, bits)
#endif
static bool sb_ev(int kind, const char* s, size_t len, unsigned long long bits) {
    SB_HOOK(kind, s, len, bits);
    if (g_sb_n < SB_MAX) { g_sb[g_sb_n].kind = kind; g_sb[g_sb_n].str = s; g_sb[g_sb_n].len = len; g_sb[g_sb_n].bits = bits; g_sb_n++; } else g_sb_overflow = 1;
    return true;
}
static unsigned int sbr_f32bits(float f) { union { float f; unsigned int u; } p; p.f = f; return p.u; }
static unsigned long long sbr_f64bits(double f) { union { double f; unsigned long long u; } p; p.f = f; return p.u; }
bool stringBuilderInitialize(StringBuilder* b) { (void)b; return true; }
bool stringBuilderReset(StringBuilder* b) { (void)b; return true; }
void stringBuilderFree(StringBuilder* b) { (void)b; }
bool stringBuilderAppendSized(StringBuilder* b, const char* s, size_t n) { (void)b; return sb_ev(SB_STR, s, n, 0); }
bool stringBuilderAppendChar(StringBuilder* b, char c) { (void)b; return sb_ev(SB_CHR, 0, 1, (unsigned char)c); }
bool stringBuilderAppendCharHex(StringBuilder* b, char c) { (void)b; return sb_ev(SB_CHARHEX, 0, 2, (unsigned char)c); }
bool stringBuilderAppendU32(StringBuilder* b, U32 v) { (void)b; return sb_ev(SB_U32, 0, 0, v); }
bool stringBuilderAppendI32(StringBuilder* b, I32 v) { (void)b; return sb_ev(SB_I32, 0, 0, (U32)v); }
bool stringBuilderAppendU64(StringBuilder* b, U64 v) { (void)b; return sb_ev(SB_U64, 0, 0, v); }
bool stringBuilderAppendI64(StringBuilder* b, I64 v) { (void)b; return sb_ev(SB_I64, 0, 0, (U64)v); }
bool stringBuilderAppendF32(StringBuilder* b, F32 v) { (void)b; return sb_ev(SB_F32, 0, 0, sbr_f32bits(v)); }
bool stringBuilderAppendF64(StringBuilder* b, F64 v) { (void)b; return sb_ev(SB_F64, 0, 0, sbr_f64bits(v)); }
bool stringBuilderAppendU32Hex(StringBuilder* b, U32 v) { (void)b; return sb_ev(SB_HEX32, 0, 8, v); }
bool stringBuilderAppendU64Hex(StringBuilder* b, U64 v) { (void)b; return sb_ev(SB_HEX64, 0, 16, v); }
/* event predicates */
static int sb_is_str(int i, const char* lit) { size_t n = 0, k; if (i >= g_sb_n || g_sb[i].kind != SB_STR) return 0; while (lit[n]) n++; if (g_sb[i].len != n) return 0; for (k = 0; k < n; k++) if (g_sb[i].str[k] != lit[k]) return 0; return 1; }
static int sb_is_chr(int i, char c) { return i < g_sb_n && g_sb[i].kind == SB_CHR && g_sb[i].bits == (unsigned char)c; }
static int sb_is(int i, int kind, unsigned long long bits) { return i < g_sb_n && g_sb[i].kind == kind && g_sb[i].bits == bits; }
#endif
