/* WebAssembly linear memory semantics (spec 4.4.7, bytes_N / little-endian storage), threads proposal
 * (atomic rmw: read old, write op(old, operand) wrapped to N bits, return old zero-extended),
 * bulk-memory proposal.  Written on byte arrays; independent of host byte order. */
#ifndef SPEC_WASM_MEM_H
#define SPEC_WASM_MEM_H
#include "wasm_int.h"

/* little-endian value of the w bytes at d[a .. a+w) */
static SU64 spec_le_read(const unsigned char* d, SU64 a, int w) {
    SU64 v = 0; int i;
    for (i = 0; i < w; i++) v |= ((SU64)d[a + (SU64)i]) << (8 * i);
    return v;
}
/* byte i of the little-endian representation of v */
static unsigned char spec_le_byte(SU64 v, SU64 i) { return (unsigned char)((v >> (8 * i)) & 0xFFu); }
/* sign extension from w bytes to 64 bits */
static SU64 spec_sext(SU64 v, int w) {
    if (w >= 8) return v;
    return (v >> (8 * w - 1)) & 1 ? (v | (~0ull << (8 * w))) : v;
}
static SU64 spec_wrap(SU64 v, int w) { return w >= 8 ? v : (v & ((1ull << (8 * w)) - 1)); }

/* expected value of byte k of memory after storing the low w bytes of v at a, given the old byte */
static unsigned char spec_after_store(SU64 k, SU64 a, int w, SU64 v, unsigned char oldbyte) {
    return (k >= a && k < a + (SU64)w) ? spec_le_byte(v, k - a) : oldbyte;
}

enum { SPEC_RMW_ADD, SPEC_RMW_SUB, SPEC_RMW_AND, SPEC_RMW_OR, SPEC_RMW_XOR, SPEC_RMW_XCHG };
static SU64 spec_rmw(int op, SU64 old, SU64 operand, int w) {
    SU64 r = 0;
    switch (op) {
        case SPEC_RMW_ADD: r = old + operand; break;
        case SPEC_RMW_SUB: r = old - operand; break;
        case SPEC_RMW_AND: r = old & operand; break;
        case SPEC_RMW_OR: r = old | operand; break;
        case SPEC_RMW_XOR: r = old ^ operand; break;
        case SPEC_RMW_XCHG: r = operand; break;
    }
    return spec_wrap(r, w);
}
#define SPEC_PAGE 65536u
#endif
