/* WebAssembly 1.0 integer semantics (spec section 4.3.2) + sign-extension operators proposal,
 * written from the specification text, not from the code under test.
 * Everything is expressed on unsigned bit vectors; signed interpretation is explicit.
 * Plain C89: usable under CBMC (contracts) and natively (counterexample replay). */
#ifndef SPEC_WASM_INT_H
#define SPEC_WASM_INT_H

typedef unsigned int SU32;
typedef unsigned long long SU64;
typedef int SI32;
typedef long long SI64;

/* trap verdicts of the specification; numbering deliberately NOT that of w2c2's enum Trap,
 * the mapping is in spec_trap_to_w2c2() so that a renumbered enum is noticed. */
#define SPEC_NOTRAP (-1)
#define SPEC_TRAP_UNREACHABLE 100
#define SPEC_TRAP_DIVZERO 101
#define SPEC_TRAP_OVERFLOW 102
#define SPEC_TRAP_INVALID_CONVERSION 103

/* README.md "trap" documentation + enum Trap: names are the documented interface */
#define SPEC_TRAP_MATCHES(spec, w2c2trap) \
   (((spec) == SPEC_TRAP_UNREACHABLE && (w2c2trap) == trapUnreachable) \
 || ((spec) == SPEC_TRAP_DIVZERO && (w2c2trap) == trapDivByZero) \
 || ((spec) == SPEC_TRAP_OVERFLOW && (w2c2trap) == trapIntOverflow) \
 || ((spec) == SPEC_TRAP_INVALID_CONVERSION && (w2c2trap) == trapInvalidConversion))

/* ---- signed interpretation: signed_N(i) = i if i < 2^(N-1), i - 2^N otherwise ---- */
static int spec_slt32(SU32 a, SU32 b) { return (a ^ 0x80000000u) < (b ^ 0x80000000u); }
static int spec_slt64(SU64 a, SU64 b) { return (a ^ 0x8000000000000000ull) < (b ^ 0x8000000000000000ull); }
static int spec_neg32(SU32 a) { return (a >> 31) & 1; }
static int spec_neg64(SU64 a) { return (int)((a >> 63) & 1); }
static SU32 spec_abs32(SU32 a) { return spec_neg32(a) ? (0u - a) : a; }
static SU64 spec_abs64(SU64 a) { return spec_neg64(a) ? (0ull - a) : a; }

/* ---- iadd isub imul: modulo 2^N ---- */
static SU32 spec_i32_add(SU32 a, SU32 b) { return a + b; }
static SU32 spec_i32_sub(SU32 a, SU32 b) { return a - b; }
static SU32 spec_i32_mul(SU32 a, SU32 b) { return a * b; }
static SU64 spec_i64_add(SU64 a, SU64 b) { return a + b; }
static SU64 spec_i64_sub(SU64 a, SU64 b) { return a - b; }
static SU64 spec_i64_mul(SU64 a, SU64 b) { return a * b; }

/* ---- idiv_u / irem_u: undefined (trap) if divisor 0; trunc(i1/i2), i1 - i2*trunc(i1/i2) ---- */
static int spec_divrem_u_trap32(SU32 a, SU32 b) { (void)a; return b == 0 ? SPEC_TRAP_DIVZERO : SPEC_NOTRAP; }
static int spec_divrem_u_trap64(SU64 a, SU64 b) { (void)a; return b == 0 ? SPEC_TRAP_DIVZERO : SPEC_NOTRAP; }
static SU32 spec_i32_div_u(SU32 a, SU32 b) { return b == 0 ? 0 : a / b; }
static SU32 spec_i32_rem_u(SU32 a, SU32 b) { return b == 0 ? 0 : a % b; }
static SU64 spec_i64_div_u(SU64 a, SU64 b) { return b == 0 ? 0 : a / b; }
static SU64 spec_i64_rem_u(SU64 a, SU64 b) { return b == 0 ? 0 : a % b; }

/* ---- idiv_s: trap if j2 = 0; trap if j1/j2 = 2^(N-1); else truncate toward zero.
 *      irem_s: trap if j2 = 0; else j1 - j2*trunc(j1/j2) (sign of dividend); INT_MIN rem -1 = 0.
 *      Written via magnitudes so that no signed C division is involved in the spec. ---- */
static int spec_div_s_trap32(SU32 a, SU32 b) {
    if (b == 0) return SPEC_TRAP_DIVZERO;
    if (a == 0x80000000u && b == 0xFFFFFFFFu) return SPEC_TRAP_OVERFLOW;
    return SPEC_NOTRAP;
}
static int spec_div_s_trap64(SU64 a, SU64 b) {
    if (b == 0) return SPEC_TRAP_DIVZERO;
    if (a == 0x8000000000000000ull && b == 0xFFFFFFFFFFFFFFFFull) return SPEC_TRAP_OVERFLOW;
    return SPEC_NOTRAP;
}
static int spec_rem_s_trap32(SU32 a, SU32 b) { (void)a; return b == 0 ? SPEC_TRAP_DIVZERO : SPEC_NOTRAP; }
static int spec_rem_s_trap64(SU64 a, SU64 b) { (void)a; return b == 0 ? SPEC_TRAP_DIVZERO : SPEC_NOTRAP; }
/* Non-trapping case: C99 6.5.5 defines signed / as truncation toward zero and a%b as a-(a/b)*b, which is
 * the specification's idiv_s / irem_s; the conversion unsigned->signed of the operands is the
 * two's-complement reinterpretation (signed_N). Stated with C's own operators because two independent
 * divider circuits (magnitude formulation) are not decided by any installed back end within minutes;
 * "C signed division = bvsdiv = trunc(j1/j2)" is listed as an assumption. INT_MIN rem -1 is 0 by the
 * spec (j1 - j2*trunc(j1/j2) = 0) and must not be evaluated with C's % (undefined). */
static SU32 spec_i32_div_s(SU32 a, SU32 b) {
    if (spec_div_s_trap32(a, b) != SPEC_NOTRAP) return 0;
    return (SU32)((SI32)a / (SI32)b);
}
static SU64 spec_i64_div_s(SU64 a, SU64 b) {
    if (spec_div_s_trap64(a, b) != SPEC_NOTRAP) return 0;
    return (SU64)((SI64)a / (SI64)b);
}
static SU32 spec_i32_rem_s(SU32 a, SU32 b) {
    if (b == 0) return 0;
    if (b == 0xFFFFFFFFu) return 0;              /* x rem -1 = 0 for every x, INT_MIN included */
    return (SU32)((SI32)a % (SI32)b);
}
static SU64 spec_i64_rem_s(SU64 a, SU64 b) {
    if (b == 0) return 0;
    if (b == 0xFFFFFFFFFFFFFFFFull) return 0;
    return (SU64)((SI64)a % (SI64)b);
}

/* ---- bitwise ---- */
static SU32 spec_i32_and(SU32 a, SU32 b) { return a & b; }
static SU32 spec_i32_or(SU32 a, SU32 b) { return a | b; }
static SU32 spec_i32_xor(SU32 a, SU32 b) { return a ^ b; }
static SU64 spec_i64_and(SU64 a, SU64 b) { return a & b; }
static SU64 spec_i64_or(SU64 a, SU64 b) { return a | b; }
static SU64 spec_i64_xor(SU64 a, SU64 b) { return a ^ b; }

/* ---- shifts: k = i2 mod N ---- */
static SU32 spec_i32_shl(SU32 a, SU32 b) { SU32 k = b % 32u; return k == 0 ? a : (a << k); }
static SU32 spec_i32_shr_u(SU32 a, SU32 b) { SU32 k = b % 32u; return k == 0 ? a : (a >> k); }
static SU32 spec_i32_shr_s(SU32 a, SU32 b) {
    SU32 k = b % 32u, r;
    if (k == 0) return a;
    r = a >> k;
    if (spec_neg32(a)) r |= ~(0xFFFFFFFFu >> k);   /* replicate the sign bit into the k vacated bits */
    return r;
}
static SU64 spec_i64_shl(SU64 a, SU64 b) { SU64 k = b % 64u; return k == 0 ? a : (a << k); }
static SU64 spec_i64_shr_u(SU64 a, SU64 b) { SU64 k = b % 64u; return k == 0 ? a : (a >> k); }
static SU64 spec_i64_shr_s(SU64 a, SU64 b) {
    SU64 k = b % 64u, r;
    if (k == 0) return a;
    r = a >> k;
    if (spec_neg64(a)) r |= ~(0xFFFFFFFFFFFFFFFFull >> k);
    return r;
}

/* ---- rotates: k = i2 mod N; by cases so that no shift by N occurs ---- */
static SU32 spec_i32_rotl(SU32 a, SU32 b) { SU32 k = b % 32u; return k == 0 ? a : ((a << k) | (a >> (32u - k))); }
static SU32 spec_i32_rotr(SU32 a, SU32 b) { SU32 k = b % 32u; return k == 0 ? a : ((a >> k) | (a << (32u - k))); }
static SU64 spec_i64_rotl(SU64 a, SU64 b) { SU64 k = b % 64u; return k == 0 ? a : ((a << k) | (a >> (64u - k))); }
static SU64 spec_i64_rotr(SU64 a, SU64 b) { SU64 k = b % 64u; return k == 0 ? a : ((a >> k) | (a << (64u - k))); }

/* ---- iclz ictz ipopcnt: bit loops (constant trip counts) ---- */
static SU32 spec_i32_clz(SU32 a) { SU32 n = 0; int i; for (i = 31; i >= 0; i--) { if ((a >> i) & 1u) break; n++; } return n; }
static SU32 spec_i32_ctz(SU32 a) { SU32 n = 0; int i; for (i = 0; i < 32; i++) { if ((a >> i) & 1u) break; n++; } return n; }
static SU32 spec_i32_popcnt(SU32 a) { SU32 n = 0; int i; for (i = 0; i < 32; i++) { n += (a >> i) & 1u; } return n; }
static SU64 spec_i64_clz(SU64 a) { SU64 n = 0; int i; for (i = 63; i >= 0; i--) { if ((a >> i) & 1u) break; n++; } return n; }
static SU64 spec_i64_ctz(SU64 a) { SU64 n = 0; int i; for (i = 0; i < 64; i++) { if ((a >> i) & 1u) break; n++; } return n; }
static SU64 spec_i64_popcnt(SU64 a) { SU64 n = 0; int i; for (i = 0; i < 64; i++) { n += (a >> i) & 1u; } return n; }

/* ---- comparisons: result 1 / 0 as i32 ---- */
static SU32 spec_i32_eqz(SU32 a) { return a == 0; }
static SU32 spec_i32_eq(SU32 a, SU32 b) { return a == b; }
static SU32 spec_i32_ne(SU32 a, SU32 b) { return a != b; }
static SU32 spec_i32_lt_u(SU32 a, SU32 b) { return a < b; }
static SU32 spec_i32_gt_u(SU32 a, SU32 b) { return a > b; }
static SU32 spec_i32_le_u(SU32 a, SU32 b) { return a <= b; }
static SU32 spec_i32_ge_u(SU32 a, SU32 b) { return a >= b; }
static SU32 spec_i32_lt_s(SU32 a, SU32 b) { return spec_slt32(a, b); }
static SU32 spec_i32_gt_s(SU32 a, SU32 b) { return spec_slt32(b, a); }
static SU32 spec_i32_le_s(SU32 a, SU32 b) { return !spec_slt32(b, a); }
static SU32 spec_i32_ge_s(SU32 a, SU32 b) { return !spec_slt32(a, b); }
static SU32 spec_i64_eqz(SU64 a) { return a == 0; }
static SU32 spec_i64_eq(SU64 a, SU64 b) { return a == b; }
static SU32 spec_i64_ne(SU64 a, SU64 b) { return a != b; }
static SU32 spec_i64_lt_u(SU64 a, SU64 b) { return a < b; }
static SU32 spec_i64_gt_u(SU64 a, SU64 b) { return a > b; }
static SU32 spec_i64_le_u(SU64 a, SU64 b) { return a <= b; }
static SU32 spec_i64_ge_u(SU64 a, SU64 b) { return a >= b; }
static SU32 spec_i64_lt_s(SU64 a, SU64 b) { return spec_slt64(a, b); }
static SU32 spec_i64_gt_s(SU64 a, SU64 b) { return spec_slt64(b, a); }
static SU32 spec_i64_le_s(SU64 a, SU64 b) { return !spec_slt64(b, a); }
static SU32 spec_i64_ge_s(SU64 a, SU64 b) { return !spec_slt64(a, b); }

/* ---- extendN_s: explicit bit replication; wrap; extend_i32 ---- */
static SU32 spec_i32_extend8_s(SU32 a) { return (a & 0x80u) ? (a | 0xFFFFFF00u) : (a & 0xFFu); }
static SU32 spec_i32_extend16_s(SU32 a) { return (a & 0x8000u) ? (a | 0xFFFF0000u) : (a & 0xFFFFu); }
static SU64 spec_i64_extend8_s(SU64 a) { return (a & 0x80u) ? (a | 0xFFFFFFFFFFFFFF00ull) : (a & 0xFFull); }
static SU64 spec_i64_extend16_s(SU64 a) { return (a & 0x8000u) ? (a | 0xFFFFFFFFFFFF0000ull) : (a & 0xFFFFull); }
static SU64 spec_i64_extend32_s(SU64 a) { return (a & 0x80000000u) ? (a | 0xFFFFFFFF00000000ull) : (a & 0xFFFFFFFFull); }
static SU32 spec_i32_wrap_i64(SU64 a) { return (SU32)(a & 0xFFFFFFFFull); }
static SU64 spec_i64_extend_i32_u(SU32 a) { return (SU64)a; }
static SU64 spec_i64_extend_i32_s(SU32 a) { return (a & 0x80000000u) ? ((SU64)a | 0xFFFFFFFF00000000ull) : (SU64)a; }

#endif
