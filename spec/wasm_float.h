/* WebAssembly 1.0 floating-point semantics (spec 4.3.3, 4.3.4) + saturating conversions proposal.
 * Written from the specification.  Two kinds of definitions:
 *  (a) integer-only definitions on the IEEE-754 bit pattern (classification, comparisons, min/max,
 *      abs/neg/copysign, float->int truncation incl. trap verdicts, reinterpretation): independent of
 *      any floating-point implementation;
 *  (b) the verifier's IEEE-754 theory / the C operators at the specified width for + - * /, promote,
 *      demote and int->float conversion (round-to-nearest-even): listed as an assumption.
 * NaN results: the specification allows any NaN; SPEC_FEQ32/64 express "NaN where the spec yields NaN,
 * bit-identical otherwise". */
#ifndef SPEC_WASM_FLOAT_H
#define SPEC_WASM_FLOAT_H
#include "wasm_int.h"
#include <string.h>

typedef union spec_pun32 { float f; SU32 u; } spec_pun32;
typedef union spec_pun64 { double f; SU64 u; } spec_pun64;
static SU32 spec_f32_bits(float f) { spec_pun32 p; p.f = f; return p.u; }
static SU64 spec_f64_bits(double f) { spec_pun64 p; p.f = f; return p.u; }
static float spec_f32_of(SU32 u) { spec_pun32 p; p.u = u; return p.f; }
static double spec_f64_of(SU64 u) { spec_pun64 p; p.u = u; return p.f; }

#define SPEC_F32_SIGN 0x80000000u
#define SPEC_F32_EXP  0x7F800000u
#define SPEC_F32_MAN  0x007FFFFFu
#define SPEC_F64_SIGN 0x8000000000000000ull
#define SPEC_F64_EXP  0x7FF0000000000000ull
#define SPEC_F64_MAN  0x000FFFFFFFFFFFFFull

static int spec_isnan32(SU32 b) { return (b & SPEC_F32_EXP) == SPEC_F32_EXP && (b & SPEC_F32_MAN) != 0; }
static int spec_isnan64(SU64 b) { return (b & SPEC_F64_EXP) == SPEC_F64_EXP && (b & SPEC_F64_MAN) != 0; }
static int spec_iszero32(SU32 b) { return (b & ~SPEC_F32_SIGN) == 0; }
static int spec_iszero64(SU64 b) { return (b & ~SPEC_F64_SIGN) == 0; }

/* "NaN where the specification yields a NaN, otherwise bit-exact" */
/* functions, not macros: the specification value must be evaluated once (one circuit for the solver) */
static int SPEC_FEQ32(float r, float s) { SU32 rb = spec_f32_bits(r), sb = spec_f32_bits(s); return rb == sb || (spec_isnan32(sb) && spec_isnan32(rb)); }
static int SPEC_FEQ64(double r, double s) { SU64 rb = spec_f64_bits(r), sb = spec_f64_bits(s); return rb == sb || (spec_isnan64(sb) && spec_isnan64(rb)); }

/* ---- total order key for non-NaN values: sign-magnitude -> offset binary, with -0 == +0 handled by callers ---- */
static SU32 spec_key32(SU32 b) { return (b & SPEC_F32_SIGN) ? ~b : (b | SPEC_F32_SIGN); }
static SU64 spec_key64(SU64 b) { return (b & SPEC_F64_SIGN) ? ~b : (b | SPEC_F64_SIGN); }

/* feq flt ...: false if either is NaN; zeros of either sign are equal */
static SU32 spec_f32_eq_b(SU32 a, SU32 b) { if (spec_isnan32(a) || spec_isnan32(b)) return 0; if (spec_iszero32(a) && spec_iszero32(b)) return 1; return a == b; }
static SU32 spec_f32_lt_b(SU32 a, SU32 b) { if (spec_isnan32(a) || spec_isnan32(b)) return 0; if (spec_iszero32(a) && spec_iszero32(b)) return 0; return spec_key32(a) < spec_key32(b); }
static SU32 spec_f64_eq_b(SU64 a, SU64 b) { if (spec_isnan64(a) || spec_isnan64(b)) return 0; if (spec_iszero64(a) && spec_iszero64(b)) return 1; return a == b; }
static SU32 spec_f64_lt_b(SU64 a, SU64 b) { if (spec_isnan64(a) || spec_isnan64(b)) return 0; if (spec_iszero64(a) && spec_iszero64(b)) return 0; return spec_key64(a) < spec_key64(b); }

static SU32 spec_f32_eq(float a, float b) { return spec_f32_eq_b(spec_f32_bits(a), spec_f32_bits(b)); }
static SU32 spec_f32_ne(float a, float b) { return !spec_f32_eq_b(spec_f32_bits(a), spec_f32_bits(b)); }
static SU32 spec_f32_lt(float a, float b) { return spec_f32_lt_b(spec_f32_bits(a), spec_f32_bits(b)); }
static SU32 spec_f32_gt(float a, float b) { return spec_f32_lt_b(spec_f32_bits(b), spec_f32_bits(a)); }
static SU32 spec_f32_le(float a, float b) { return spec_f32_lt(a, b) || spec_f32_eq(a, b); }
static SU32 spec_f32_ge(float a, float b) { return spec_f32_gt(a, b) || spec_f32_eq(a, b); }
static SU32 spec_f64_eq(double a, double b) { return spec_f64_eq_b(spec_f64_bits(a), spec_f64_bits(b)); }
static SU32 spec_f64_ne(double a, double b) { return !spec_f64_eq_b(spec_f64_bits(a), spec_f64_bits(b)); }
static SU32 spec_f64_lt(double a, double b) { return spec_f64_lt_b(spec_f64_bits(a), spec_f64_bits(b)); }
static SU32 spec_f64_gt(double a, double b) { return spec_f64_lt_b(spec_f64_bits(b), spec_f64_bits(a)); }
static SU32 spec_f64_le(double a, double b) { return spec_f64_lt(a, b) || spec_f64_eq(a, b); }
static SU32 spec_f64_ge(double a, double b) { return spec_f64_gt(a, b) || spec_f64_eq(a, b); }

/* ---- fmin / fmax: NaN if either is NaN; -0 < +0; otherwise the smaller / larger ---- */
#define SPEC_QNAN32 0x7FC00000u
#define SPEC_QNAN64 0x7FF8000000000000ull
static float spec_f32_min(float x, float y) {
    SU32 a = spec_f32_bits(x), b = spec_f32_bits(y);
    if (spec_isnan32(a) || spec_isnan32(b)) return spec_f32_of(SPEC_QNAN32);
    return spec_f32_of(spec_key32(a) <= spec_key32(b) ? a : b);   /* key(-0) < key(+0) */
}
static float spec_f32_max(float x, float y) {
    SU32 a = spec_f32_bits(x), b = spec_f32_bits(y);
    if (spec_isnan32(a) || spec_isnan32(b)) return spec_f32_of(SPEC_QNAN32);
    return spec_f32_of(spec_key32(a) >= spec_key32(b) ? a : b);
}
static double spec_f64_min(double x, double y) {
    SU64 a = spec_f64_bits(x), b = spec_f64_bits(y);
    if (spec_isnan64(a) || spec_isnan64(b)) return spec_f64_of(SPEC_QNAN64);
    return spec_f64_of(spec_key64(a) <= spec_key64(b) ? a : b);
}
static double spec_f64_max(double x, double y) {
    SU64 a = spec_f64_bits(x), b = spec_f64_bits(y);
    if (spec_isnan64(a) || spec_isnan64(b)) return spec_f64_of(SPEC_QNAN64);
    return spec_f64_of(spec_key64(a) >= spec_key64(b) ? a : b);
}

/* ---- fabs fneg fcopysign: sign-bit operations, every other bit (NaN payloads) preserved ---- */
static float spec_f32_abs(float x) { return spec_f32_of(spec_f32_bits(x) & ~SPEC_F32_SIGN); }
static float spec_f32_neg(float x) { return spec_f32_of(spec_f32_bits(x) ^ SPEC_F32_SIGN); }
static float spec_f32_copysign(float x, float y) { return spec_f32_of((spec_f32_bits(x) & ~SPEC_F32_SIGN) | (spec_f32_bits(y) & SPEC_F32_SIGN)); }
static double spec_f64_abs(double x) { return spec_f64_of(spec_f64_bits(x) & ~SPEC_F64_SIGN); }
static double spec_f64_neg(double x) { return spec_f64_of(spec_f64_bits(x) ^ SPEC_F64_SIGN); }
static double spec_f64_copysign(double x, double y) { return spec_f64_of((spec_f64_bits(x) & ~SPEC_F64_SIGN) | (spec_f64_bits(y) & SPEC_F64_SIGN)); }

/* ---- (b) arithmetic through the IEEE-754 theory at the specified width ---- */
static float spec_f32_add(float a, float b) { return a + b; }
static float spec_f32_sub(float a, float b) { return a - b; }
static float spec_f32_mul(float a, float b) { return a * b; }
static float spec_f32_div(float a, float b) { return a / b; }
static double spec_f64_add(double a, double b) { return a + b; }
static double spec_f64_sub(double a, double b) { return a - b; }
static double spec_f64_mul(double a, double b) { return a * b; }
static double spec_f64_div(double a, double b) { return a / b; }
static double spec_f64_promote_f32(float a) { return (double)a; }
static float spec_f32_demote_f64(double a) { return (float)a; }
static float spec_f32_convert_i32_s(SU32 a) { return (float)(SI32)a; }
static float spec_f32_convert_i32_u(SU32 a) { return (float)a; }
static float spec_f32_convert_i64_s(SU64 a) { return (float)(SI64)a; }
static float spec_f32_convert_i64_u(SU64 a) { return (float)a; }
static double spec_f64_convert_i32_s(SU32 a) { return (double)(SI32)a; }
static double spec_f64_convert_i32_u(SU32 a) { return (double)a; }
static double spec_f64_convert_i64_s(SU64 a) { return (double)(SI64)a; }
static double spec_f64_convert_i64_u(SU64 a) { return (double)a; }

/* ---- reinterpretation ---- */
static SU32 spec_i32_reinterpret_f32(float a) { return spec_f32_bits(a); }
static SU64 spec_i64_reinterpret_f64(double a) { return spec_f64_bits(a); }
static float spec_f32_reinterpret_i32(SU32 a) { return spec_f32_of(a); }
static double spec_f64_reinterpret_i64(SU64 a) { return spec_f64_of(a); }

/* ---- float -> int truncation, integer-only.
 * Decode |x| truncated toward zero as an unsigned 64-bit magnitude `mag`, or "huge" if |x| >= 2^64.
 * Then: trunc_s_N defined iff -2^(N-1) <= trunc(x) <= 2^(N-1)-1; trunc_u_N iff 0 <= trunc(x) <= 2^N-1
 * (note: x in (-1, 0) truncates to 0 and is in range for the unsigned forms, -0 included). ---- */
typedef struct spec_trunc { int nan; int inf_or_huge; int neg; SU64 mag; } spec_trunc;

static spec_trunc spec_decode32(SU32 b) {
    spec_trunc t; SU32 e = (b >> 23) & 0xFFu; SU64 m = (b & SPEC_F32_MAN);
    t.nan = spec_isnan32(b); t.neg = (b >> 31) & 1; t.inf_or_huge = 0; t.mag = 0;
    if (t.nan) return t;
    if (e == 0xFFu) { t.inf_or_huge = 1; return t; }
    if (e < 127u) return t;                       /* |x| < 1 (incl. zero, subnormals) */
    m |= 0x800000u;                                /* 1.m * 2^(e-127) = m * 2^(e-150) */
    if (e >= 127u + 64u) { t.inf_or_huge = 1; return t; }
    if (e >= 150u) t.mag = m << (e - 150u); else t.mag = m >> (150u - e);
    return t;
}
static spec_trunc spec_decode64(SU64 b) {
    spec_trunc t; SU32 e = (SU32)((b >> 52) & 0x7FFu); SU64 m = (b & SPEC_F64_MAN);
    t.nan = spec_isnan64(b); t.neg = (int)((b >> 63) & 1); t.inf_or_huge = 0; t.mag = 0;
    if (t.nan) return t;
    if (e == 0x7FFu) { t.inf_or_huge = 1; return t; }
    if (e < 1023u) return t;
    m |= 0x10000000000000ull;                      /* m * 2^(e-1075) */
    if (e >= 1023u + 64u) { t.inf_or_huge = 1; return t; }
    if (e >= 1075u) t.mag = m << (e - 1075u); else t.mag = m >> (1075u - e);
    return t;
}
/* signed target of `bits` bits */
static int spec_trunc_s_trap(spec_trunc t, int bits) {
    SU64 lim = 1ull << (bits - 1);
    if (t.nan) return SPEC_TRAP_INVALID_CONVERSION;
    if (t.inf_or_huge) return SPEC_TRAP_OVERFLOW;
    if (t.neg ? (t.mag > lim) : (t.mag > lim - 1)) return SPEC_TRAP_OVERFLOW;
    return SPEC_NOTRAP;
}
static int spec_trunc_u_trap(spec_trunc t, int bits) {
    if (t.nan) return SPEC_TRAP_INVALID_CONVERSION;
    if (t.inf_or_huge) return SPEC_TRAP_OVERFLOW;
    if (t.neg && t.mag != 0) return SPEC_TRAP_OVERFLOW;
    if (bits == 32 && t.mag > 0xFFFFFFFFull) return SPEC_TRAP_OVERFLOW;
    return SPEC_NOTRAP;
}
static SU64 spec_trunc_s_val(spec_trunc t) { return t.neg ? (0ull - t.mag) : t.mag; }   /* two's complement, 64 bit */

#define SPEC_DEF_TRUNC(fw, dec, arg_t, tobits)                                                                   \
  static int spec_i32_trunc_##fw##_s_trap(arg_t x) { return spec_trunc_s_trap(dec(tobits(x)), 32); }             \
  static int spec_i32_trunc_##fw##_u_trap(arg_t x) { return spec_trunc_u_trap(dec(tobits(x)), 32); }             \
  static int spec_i64_trunc_##fw##_s_trap(arg_t x) { return spec_trunc_s_trap(dec(tobits(x)), 64); }             \
  static int spec_i64_trunc_##fw##_u_trap(arg_t x) { return spec_trunc_u_trap(dec(tobits(x)), 64); }             \
  static SU32 spec_i32_trunc_##fw##_s(arg_t x) { spec_trunc t = dec(tobits(x)); return spec_trunc_s_trap(t, 32) != SPEC_NOTRAP ? 0 : (SU32)spec_trunc_s_val(t); } \
  static SU32 spec_i32_trunc_##fw##_u(arg_t x) { spec_trunc t = dec(tobits(x)); return spec_trunc_u_trap(t, 32) != SPEC_NOTRAP ? 0 : (SU32)t.mag; } \
  static SU64 spec_i64_trunc_##fw##_s(arg_t x) { spec_trunc t = dec(tobits(x)); return spec_trunc_s_trap(t, 64) != SPEC_NOTRAP ? 0 : spec_trunc_s_val(t); } \
  static SU64 spec_i64_trunc_##fw##_u(arg_t x) { spec_trunc t = dec(tobits(x)); return spec_trunc_u_trap(t, 64) != SPEC_NOTRAP ? 0 : t.mag; } \
  /* saturating: NaN -> 0, below range -> min, above -> max */                                                   \
  static SU32 spec_i32_trunc_sat_##fw##_s(arg_t x) { spec_trunc t = dec(tobits(x)); if (t.nan) return 0;          \
      if (spec_trunc_s_trap(t, 32) != SPEC_NOTRAP) return t.neg ? 0x80000000u : 0x7FFFFFFFu; return (SU32)spec_trunc_s_val(t); } \
  static SU32 spec_i32_trunc_sat_##fw##_u(arg_t x) { spec_trunc t = dec(tobits(x)); if (t.nan) return 0;          \
      if (spec_trunc_u_trap(t, 32) != SPEC_NOTRAP) return t.neg ? 0u : 0xFFFFFFFFu; return (SU32)t.mag; }          \
  static SU64 spec_i64_trunc_sat_##fw##_s(arg_t x) { spec_trunc t = dec(tobits(x)); if (t.nan) return 0;          \
      if (spec_trunc_s_trap(t, 64) != SPEC_NOTRAP) return t.neg ? 0x8000000000000000ull : 0x7FFFFFFFFFFFFFFFull; return spec_trunc_s_val(t); } \
  static SU64 spec_i64_trunc_sat_##fw##_u(arg_t x) { spec_trunc t = dec(tobits(x)); if (t.nan) return 0;          \
      if (spec_trunc_u_trap(t, 64) != SPEC_NOTRAP) return t.neg ? 0ull : 0xFFFFFFFFFFFFFFFFull; return t.mag; }

SPEC_DEF_TRUNC(f32, spec_decode32, float, spec_f32_bits)
SPEC_DEF_TRUNC(f64, spec_decode64, double, spec_f64_bits)

#endif
