/* WASI snapshot_preview1 / unstable (witx) constants and layouts, transcribed from the witx
 * documents (typenames.witx), NOT from wasi.h. */
#ifndef WASI_SPEC_H
#define WASI_SPEC_H
/* $errno variants in declaration order */
enum { SW_SUCCESS = 0, SW_2BIG, SW_ACCES, SW_ADDRINUSE, SW_ADDRNOTAVAIL, SW_AFNOSUPPORT, SW_AGAIN, SW_ALREADY, SW_BADF, SW_BADMSG, SW_BUSY,
       SW_CANCELED, SW_CHILD, SW_CONNABORTED, SW_CONNREFUSED, SW_CONNRESET, SW_DEADLK, SW_DESTADDRREQ, SW_DOM, SW_DQUOT, SW_EXIST, SW_FAULT,
       SW_FBIG, SW_HOSTUNREACH, SW_IDRM, SW_ILSEQ, SW_INPROGRESS, SW_INTR, SW_INVAL, SW_IO, SW_ISCONN, SW_ISDIR, SW_LOOP, SW_MFILE, SW_MLINK,
       SW_MSGSIZE, SW_MULTIHOP, SW_NAMETOOLONG, SW_NETDOWN, SW_NETRESET, SW_NETUNREACH, SW_NFILE, SW_NOBUFS, SW_NODEV, SW_NOENT, SW_NOEXEC,
       SW_NOLCK, SW_NOLINK, SW_NOMEM, SW_NOMSG, SW_NOPROTOOPT, SW_NOSPC, SW_NOSYS, SW_NOTCONN, SW_NOTDIR, SW_NOTEMPTY, SW_NOTRECOVERABLE,
       SW_NOTSOCK, SW_NOTSUP, SW_NOTTY, SW_NXIO, SW_OVERFLOW, SW_OWNERDEAD, SW_PERM, SW_PIPE, SW_PROTO, SW_PROTONOSUPPORT, SW_PROTOTYPE,
       SW_RANGE, SW_ROFS, SW_SPIPE, SW_SRCH, SW_STALE, SW_TIMEDOUT, SW_TXTBSY, SW_XDEV, SW_NOTCAPABLE };
/* POSIX errno -> WASI errno of the same name, for the errnos POSIX lists for open/read/write/lseek/close/fstat/stat/
 * mkdir/rmdir/unlink/rename/symlink/readlink/fsync; -1: no claim */
static int spec_wasi_errno(int e) {
    switch (e) {
        case EPERM: return SW_PERM; case ENOENT: return SW_NOENT; case ESRCH: return SW_SRCH; case EINTR: return SW_INTR; case EIO: return SW_IO;
        case ENXIO: return SW_NXIO; case E2BIG: return SW_2BIG; case ENOEXEC: return SW_NOEXEC; case EBADF: return SW_BADF; case ECHILD: return SW_CHILD;
        case EAGAIN: return SW_AGAIN; case ENOMEM: return SW_NOMEM; case EACCES: return SW_ACCES; case EFAULT: return SW_FAULT; case EBUSY: return SW_BUSY;
        case EEXIST: return SW_EXIST; case EXDEV: return SW_XDEV; case ENODEV: return SW_NODEV; case ENOTDIR: return SW_NOTDIR; case EISDIR: return SW_ISDIR;
        case EINVAL: return SW_INVAL; case ENFILE: return SW_NFILE; case EMFILE: return SW_MFILE; case ENOTTY: return SW_NOTTY; case ETXTBSY: return SW_TXTBSY;
        case EFBIG: return SW_FBIG; case ENOSPC: return SW_NOSPC; case ESPIPE: return SW_SPIPE; case EROFS: return SW_ROFS; case EMLINK: return SW_MLINK;
        case EPIPE: return SW_PIPE; case EDOM: return SW_DOM; case ERANGE: return SW_RANGE;
        case ENOTEMPTY: return SW_NOTEMPTY; case ENAMETOOLONG: return SW_NAMETOOLONG; case ELOOP: return SW_LOOP; case EOVERFLOW: return SW_OVERFLOW;
        case EDQUOT: return SW_DQUOT;
        default: return -1;
    }
}
/* $whence: preview1 {set 0, cur 1, end 2}; unstable {cur 0, end 1, set 2} */
static int spec_whence_preview1(unsigned w) { return w == 0 ? SEEK_SET : w == 1 ? SEEK_CUR : w == 2 ? SEEK_END : -1; }
static int spec_whence_unstable(unsigned w) { return w == 0 ? SEEK_CUR : w == 1 ? SEEK_END : w == 2 ? SEEK_SET : -1; }
/* $oflags: creat 1, directory 2, excl 4, trunc 8;  $fdflags: append 1, dsync 2, nonblock 4, rsync 8, sync 16
 * $rights: fd_datasync bit0, fd_read bit1, fd_write bit6, fd_allocate bit8, fd_readdir bit14, fd_filestat_set_size bit22 */
static int spec_open_flags(unsigned oflags, unsigned fdflags, unsigned long long rights) {
    int rd = (rights & ((1ull << 1) | (1ull << 14))) != 0;
    int wr = (rights & ((1ull << 0) | (1ull << 6) | (1ull << 8) | (1ull << 22))) != 0;
    int f = wr ? (rd ? O_RDWR : O_WRONLY) : O_RDONLY;
    if (oflags & 1) f |= O_CREAT;
    if (oflags & 2) f |= O_DIRECTORY;
    if (oflags & 4) f |= O_EXCL;
    if (oflags & 8) f |= O_TRUNC;
    if (fdflags & 1) f |= O_APPEND;
    if (fdflags & 2) f |= O_DSYNC;
    if (fdflags & 4) f |= O_NONBLOCK;
    if (fdflags & 16) f |= O_SYNC;
    return f;
}
/* path resolution (C14): relative guest paths are resolved against the directory descriptor's path, absolute ones are
 * used as they are; empty paths and results that do not fit `pathmax` bytes (with terminator) are rejected.
 * returns 1 = must be accepted (result in out), 0 = must be rejected, 2 = exact-fit corner left open (directory ends in '/') */
static int spec_resolve(const char* dir, const unsigned char* p, unsigned len, char* out, unsigned pathmax) {
    unsigned dl = 0, i, sep;
    if (len == 0) return 0;
    if (p[0] == '/') {
        if (len + 1 > pathmax) return 0;
        for (i = 0; i < len; i++) out[i] = (char)p[i];
        out[len] = 0;
        return 1;
    }
    while (dir[dl]) dl++;
    sep = (dl == 0 || dir[dl - 1] != '/') ? 1u : 0u;
    if (dl + sep + len + 1 > pathmax) return 0;
    for (i = 0; i < dl; i++) out[i] = dir[i];
    if (sep) out[dl] = '/';
    for (i = 0; i < len; i++) out[dl + sep + i] = (char)p[i];
    out[dl + sep + len] = 0;
    if (!sep && dl + len + 2 > pathmax) return 2;
    return 1;
}
/* $filetype: unknown 0, block_device 1, character_device 2, directory 3, regular_file 4, socket_dgram 5, socket_stream 6, symbolic_link 7 */
static int spec_filetype(mode_t m) {
    if (S_ISCHR(m)) return 2; if (S_ISDIR(m)) return 3; if (S_ISREG(m)) return 4; if (S_ISLNK(m)) return 7; if (S_ISBLK(m)) return 1; return 0;
}
#endif
